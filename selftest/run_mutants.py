#!/usr/bin/env python3
"""Sensitivity suite: apply each deliberate property-breaking patch to /repo, run the quick check of
the property it belongs to, expect exit 1 (VIOLATION), revert. The clean tree must pass (exit 0).
/repo must be clean; nothing is committed there. Results: /verif/selftest/results.json"""
import glob, json, os, subprocess, sys, time

REPO = os.environ.get("REPO_DIR", "/repo")
HERE = os.path.dirname(os.path.abspath(__file__))
only = sys.argv[1:]
res = {}
if os.path.exists(os.path.join(HERE, "results.json")):
    res = json.load(open(os.path.join(HERE, "results.json")))
st = subprocess.run(["git", "-C", REPO, "status", "--short"], capture_output=True, text=True).stdout.strip()
if st:
    print("repo not clean:", st)
    sys.exit(2)
for patch in sorted(glob.glob(os.path.join(HERE, "mutants", "*.patch"))):
    name = os.path.basename(patch)[:-6]
    if only and not any(o in name for o in only):
        continue
    meta = open(patch[:-6] + ".txt").read().splitlines()
    prop = meta[0].split("=")[1]
    r = subprocess.run(["git", "-C", REPO, "apply", patch], capture_output=True, text=True)
    if r.returncode != 0:
        res[name] = {"property": prop, "result": "PATCH_DOES_NOT_APPLY", "detail": r.stderr[-300:]}
        print(name, res[name]["result"])
        continue
    t = time.time()
    try:
        c = subprocess.run([os.path.join(HERE, "..", "check"), prop, "--tier", "quick"], capture_output=True, text=True, cwd=os.path.join(HERE, ".."))
        viol = [l for l in c.stdout.splitlines() if l.startswith("VIOLATION")]
        oracle = [l.strip() for l in c.stdout.splitlines() if l.strip().startswith("oracle=")]
        summary = [l for l in c.stderr.splitlines() if l.startswith(f"[{prop}] runs=")]
        res[name] = {"property": prop, "what": meta[1] if len(meta) > 1 else "", "exit": c.returncode,
                     "result": "CAUGHT" if c.returncode == 1 and viol else ("MISSED" if c.returncode == 0 else "HARNESS_ERROR"),
                     "oracle": oracle[0][:300] if oracle else None, "summary": summary[-1] if summary else c.stderr[-400:], "wall_s": round(time.time() - t)}
    finally:
        subprocess.run(["git", "-C", REPO, "checkout", "--", "."])
    print(name, res[name]["result"], res[name].get("oracle"), flush=True)
    json.dump(res, open(os.path.join(HERE, "results.json"), "w"), indent=1)
