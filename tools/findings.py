"""Known-finding matching (DESIGN.md §6.5). Every open entry of known_findings.json names a matcher
below: a *defect-aware predicate* that must explain the observed failure exactly; anything it does
not explain is a VIOLATION. The file is never written at run time; `fixed` entries suppress nothing."""
import json
import os

import vlib

MATCHERS = {}


def matcher(name):
    def deco(f):
        MATCHERS[name] = f
        return f
    return deco


def match(prop, case, out):
    kf = vlib.load_known()
    for e in kf.get("findings", []):
        if e.get("status") != "open":
            continue
        if prop not in e.get("properties", []):
            continue
        m = MATCHERS.get(e.get("matcher"))
        if m is None:
            continue
        try:
            if m(e, case, out):
                return e
        except Exception as ex:  # a matcher that cannot decide does not match
            vlib.log(f"matcher {e.get('matcher')} raised {ex!r}")
    return None
