"""Known-finding matching (DESIGN.md §6.5). Every open entry of known_findings.json names a matcher
below: a *defect-aware predicate* that must explain the observed failure exactly; anything it does
not explain is a VIOLATION. The file is never written at run time; `fixed` entries suppress nothing."""
import json
import os

import vlib

MATCHERS = {}


def matcher(name):
    def deco(f):
        MATCHERS[name] = f
        return f
    return deco


def match(prop, case, out):
    kf = vlib.load_known()
    for e in kf.get("findings", []):
        if e.get("status") != "open":
            continue
        if prop not in e.get("properties", []):
            continue
        m = MATCHERS.get(e.get("matcher"))
        if m is None:
            continue
        try:
            if m(e, case, out):
                return e
        except Exception as ex:  # a matcher that cannot decide does not match
            vlib.log(f"matcher {e.get('matcher')} raised {ex!r}")
    return None


def _cmp_holds(v, cmp, k):
    return {">": v > k, "<": v < k, ">=": v >= k, "<=": v <= k, "=": v == k}.get(cmp, v != k)


def _int(v):
    if isinstance(v, dict):
        for key in ("I64", "I32"):
            if key in v:
                return v[key]
    return None


@matcher("conditional_writer_conflict")
def conditional_writer_conflict(entry, case, out):
    """C20 known finding: a conditional delete / update evaluates its condition on a snapshot and
    applies the result later. The failure is attributed to it only if (1) it is a handler-level
    history, (2) some conditional statement runs in one thread while ANOTHER thread writes tuples
    that its condition matches (explicit tuples that satisfy the condition, or any other
    conditional statement on the relation), and (3) the very same case passes under the serial
    schedule (twin run). Anything else is a new violation."""
    if case.get("level") != "handler" or (out.get("failure") or {}).get("oracle") != "not_linearizable":
        return False
    threads = case.get("threads", [])
    conflict = False
    for ti, ops in enumerate(threads):
        for op in ops:
            if op.get("op") not in ("cond_delete", "update"):
                continue
            for tj, other in enumerate(threads):
                if tj == ti:
                    continue
                for o2 in other:
                    if o2.get("rel") != op.get("rel") or o2.get("kg") != op.get("kg"):
                        continue
                    if o2.get("op") in ("cond_delete", "update"):
                        conflict = True
                    elif o2.get("op") in ("insert", "delete"):
                        for t in o2.get("tuples", []):
                            v = _int(t[op["col"]]) if len(t) > op["col"] else None
                            if v is not None and _cmp_holds(v, op["cmp"], op["k"]):
                                conflict = True
                            # an update moves column 1 by `add`: a tuple the update would produce also conflicts
    if not conflict:
        return False
    twin = dict(case)
    twin["sched"] = "serial"
    twin["crash"] = None
    tout = vlib.execute([twin], jobs=1)[0]
    return tout.get("status") == "ok"
