#!/usr/bin/env python3
"""Generate /verif/sim/shadow/Cargo.toml from $REPO_DIR/Cargo.toml (DESIGN.md §2.2).

The shadow package is the inputlayer library built from the repository's *current working tree*
(src and docs are symlinks into $REPO_DIR), with [[bin]]/[[example]]/[[bench]] targets dropped and
`parking_lot` / `dashmap` resolved to the simulation shims. Nothing under $REPO_DIR is written.
"""
import os, re, sys, shutil

repo = os.environ.get("REPO_DIR", "/repo")
here = os.path.dirname(os.path.abspath(__file__))
shadow = os.path.join(here, "..", "sim", "shadow")
shadow = os.path.abspath(shadow)
os.makedirs(shadow, exist_ok=True)

src = open(os.path.join(repo, "Cargo.toml")).read()

# drop [[bin]] / [[example]] / [[bench]] tables and dev-dependencies
out, skip = [], False
for line in src.splitlines():
    m = re.match(r"^\s*\[+([^\]]+)\]+\s*$", line)
    if m:
        name = m.group(1).strip()
        skip = name in ("bin", "example", "bench", "dev-dependencies") or name.startswith("profile")
    if not skip:
        out.append(line)
txt = "\n".join(out) + "\n"

def sub_dep(txt, name, repl):
    pat = re.compile(r"^%s\s*=.*$" % re.escape(name), re.M)
    assert pat.search(txt), f"dependency {name} not found in Cargo.toml"
    return pat.sub(repl, txt, count=1)

txt = sub_dep(txt, "parking_lot", 'parking_lot = { path = "../shims/parking_lot" }')
txt = sub_dep(txt, "dashmap", 'dashmap = { path = "../shims/dashmap" }')
txt = sub_dep(txt, "arc-swap", 'arc-swap = { path = "../shims/arc-swap" }')
if "verif-hooks" not in txt:
    sys.stderr.write("gen_shadow: feature verif-hooks missing in %s/Cargo.toml\n" % repo)
    sys.exit(2)
txt = txt.replace("[package]", "[package]\nautobins = false\nautoexamples = false\nautotests = false\nautobenches = false", 1)
txt += '\n[lib]\nname = "inputlayer"\npath = "src/lib.rs"\n'

def write_if_changed(path, content):
    try:
        if open(path).read() == content:
            return
    except FileNotFoundError:
        pass
    open(path, "w").write(content)

write_if_changed(os.path.join(shadow, "Cargo.toml"), txt)
for name in ("src", "docs"):
    link = os.path.join(shadow, name)
    target = os.path.join(repo, name)
    if os.path.islink(link):
        if os.readlink(link) == target:
            continue
        os.unlink(link)
    elif os.path.exists(link):
        shutil.rmtree(link)
    os.symlink(target, link)
# README referenced by the package manifest
rd = os.path.join(shadow, "README.md")
if not os.path.exists(rd):
    open(rd, "w").write("shadow manifest of inputlayer for simulation builds\n")
