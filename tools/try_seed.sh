#!/bin/bash
# usage: tools/try_seed.sh <patch.diff> <Cxx> [tier]   - apply a seeded change to /repo, run the check, undo
set -u
cd /verif
if [ -n "$(git -C /repo status --short)" ]; then echo "repo not clean"; exit 2; fi
git -C /repo apply "$1" || { echo "patch does not apply"; exit 2; }
./check "$2" --tier "${3:-quick}" > /tmp/try_seed.out 2> /tmp/try_seed.err; rc=$?
git -C /repo checkout -- .
grep -E "^VIOLATION|^  oracle=" /tmp/try_seed.out | cut -c1-400
grep -E "^\[$2\] runs=" /tmp/try_seed.err | cut -c1-400
echo "exit=$rc"
# replay files written for a seeded change are not findings of the tree
for f in $(grep -oE "replay=[^ ]+" /tmp/try_seed.out | cut -d= -f2); do rm -f "$f"; done
git checkout -q -- evidence 2>/dev/null
exit 0
