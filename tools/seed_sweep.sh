#!/bin/bash
# usage: tools/seed_sweep.sh <seed>...   - run every quick check under other VERIF_SEED values (soundness: no alarm for any seed)
cd "$(dirname "$0")/.."
for s in "$@"; do
  for c in C04 C10 C11 C12 C13 C14 C15 C16 C17 C18 C19 C20 C24 C25 C26 C32 C33; do
    VERIF_SEED=$s ./check $c --tier quick > /tmp/sweep_$c.$s.out 2> /tmp/sweep_$c.$s.err; rc=$?
    echo "seed=$s $c rc=$rc $(grep -E '^VIOLATION|^KNOWN' /tmp/sweep_$c.$s.out | cut -c1-160 | tr '\n' ' ') $(grep -E "^\[$c\] runs=" /tmp/sweep_$c.$s.err | cut -c1-200)"
  done
done
