"""Shared driver library: build, run batches, minimise, known findings, evidence (DESIGN.md §7, §11)."""
import copy
import hashlib
import json
import os
import subprocess
import sys
import time

VERIF = os.path.dirname(os.path.dirname(os.path.abspath(__file__)))
SIMBIN_DIR = os.path.join(VERIF, "sim", "simbin")
TARGET = os.environ.get("VERIF_TARGET", "/verif/target")
SIM = os.path.join(TARGET, "debug", "sim")
JOBS = int(os.environ.get("VERIF_JOBS", "16"))


class HarnessError(Exception):
    pass


def log(msg):
    sys.stderr.write(msg + "\n")
    sys.stderr.flush()


def build():
    """Rebuild the simulator from $REPO_DIR's current working tree (no-op when unchanged)."""
    if os.environ.get("VERIF_NO_BUILD"):
        return SIM
    env = dict(os.environ)
    env["CARGO_NET_OFFLINE"] = "true"
    t = time.time()
    r = subprocess.run([sys.executable, os.path.join(VERIF, "tools", "gen_shadow.py")], env=env)
    if r.returncode != 0:
        raise HarnessError("gen_shadow failed")
    lock = os.path.join(SIMBIN_DIR, "Cargo.lock")
    if not os.path.exists(lock):
        import shutil
        shutil.copy(os.path.join(os.environ.get("REPO_DIR", "/repo"), "Cargo.lock"), lock)
    r = subprocess.run(["cargo", "build", "--offline", "--quiet"], cwd=SIMBIN_DIR, env=env,
                       stdout=subprocess.PIPE, stderr=subprocess.PIPE, text=True)
    if r.returncode != 0:
        sys.stderr.write(r.stderr[-6000:])
        raise HarnessError("cargo build of the simulator failed")
    log(f"[build] ok in {time.time() - t:.1f}s")
    return SIM


def gen(family, seed, frm, n, extra=()):
    cmd = [SIM, "gen", "--family", family, "--seed", str(seed), "--from", str(frm), "--n", str(n)] + list(extra)
    r = subprocess.run(cmd, stdout=subprocess.PIPE, stderr=subprocess.PIPE, text=True)
    if r.returncode != 0:
        raise HarnessError(f"sim gen failed: {r.stderr[-2000:]}")
    return [json.loads(l) for l in r.stdout.splitlines() if l.strip()]


def execute(cases, jobs=None, timeout_s=180):
    """Run cases (each in a forked child); returns outcomes in the same order."""
    if not cases:
        return []
    inp = "\n".join(json.dumps(c, separators=(",", ":")) for c in cases) + "\n"
    cmd = [SIM, "exec", "--jobs", str(jobs or JOBS), "--timeout-s", str(timeout_s)]
    r = subprocess.run(cmd, input=inp, stdout=subprocess.PIPE, stderr=subprocess.PIPE, text=True)
    if r.returncode != 0:
        raise HarnessError(f"sim exec failed rc={r.returncode}: {r.stderr[-2000:]}")
    outs = [json.loads(l) for l in r.stdout.splitlines() if l.strip()]
    if len(outs) != len(cases):
        raise HarnessError(f"sim exec returned {len(outs)} outcomes for {len(cases)} cases")
    return outs


def oracle_of(out):
    f = out.get("failure")
    return f["oracle"] if f else None


def case_hash(case, keys=("cfg", "ops", "crash", "post_ops", "faults", "threads", "sched", "batches", "setup", "level")):
    d = {k: case.get(k) for k in keys if k in case}
    return hashlib.sha1(json.dumps(d, sort_keys=True).encode()).hexdigest()[:16]


# ---------------------------------------------------------------------------------- minimisation

def _fails_same(case, oracle, cache):
    key = json.dumps(case, sort_keys=True)
    if key in cache:
        return cache[key]
    out = execute([case], jobs=1)[0]
    ok = oracle_of(out) == oracle
    cache[key] = ok
    return ok


def _batch_fails(cases, oracle):
    outs = execute(cases)
    return [oracle_of(o) == oracle for o in outs]


def ddmin_list(case, field, oracle, budget_s, t0, keep_tail=0):
    """Greedy one-at-a-time then chunk removal on case[field] (a list), evaluated in parallel."""
    changed = True
    while changed and time.time() - t0 < budget_s:
        changed = False
        items = case[field]
        n = len(items) - keep_tail
        if n <= 0:
            break
        # try removing chunks of decreasing size
        size = max(1, n // 2)
        while size >= 1 and time.time() - t0 < budget_s:
            cands = []
            for start in range(0, n, size):
                c = copy.deepcopy(case)
                c[field] = items[:start] + items[min(n, start + size):]
                if len(c[field]) < len(items):
                    cands.append(c)
            res = _batch_fails(cands, oracle) if cands else []
            picked = None
            for c, ok in zip(cands, res):
                if ok:
                    picked = c
                    break
            if picked is not None:
                case = picked
                items = case[field]
                n = len(items) - keep_tail
                changed = True
                size = max(1, min(size, n // 2 if n > 1 else 1))
                if n <= 0:
                    break
            else:
                size //= 2
    return case


def shrink_tuples(case, oracle, budget_s, t0):
    """Reduce multi-tuple inserts/deletes to fewer tuples."""
    for field in ("ops", "post_ops"):
        i = 0
        while i < len(case.get(field, [])) and time.time() - t0 < budget_s:
            op = case[field][i]
            if op.get("op") in ("insert", "delete") and len(op.get("tuples", [])) > 1:
                cands = []
                for j in range(len(op["tuples"])):
                    c = copy.deepcopy(case)
                    c[field][i]["tuples"] = op["tuples"][:j] + op["tuples"][j + 1:]
                    cands.append(c)
                res = _batch_fails(cands, oracle)
                hit = [c for c, ok in zip(cands, res) if ok]
                if hit:
                    case = hit[0]
                    continue
            i += 1
    return case


def simplify_cfg(case, oracle):
    """Prefer default knobs when the failure does not need them."""
    base = {"buffer_size": 10000, "max_wal": 0, "durability": "immediate", "num_threads": 1}
    cands = []
    for k, v in base.items():
        if case.get("cfg", {}).get(k) != v:
            c = copy.deepcopy(case)
            c["cfg"][k] = v
            cands.append(c)
    if not cands:
        return case
    res = _batch_fails(cands, oracle)
    for c, ok in zip(cands, res):
        if ok:
            return simplify_cfg(c, oracle)
    return case


def minimise_dur(case, oracle, budget_s=150, scenario="dur"):
    """Shrink a failing DUR case while the same oracle keeps firing. The crash ordinal refers to
    the file-system event sequence, so after removing operations the crash is re-anchored by
    searching the ordinals of the shrunk history (resolved explicit image kept when possible)."""
    t0 = time.time()
    case = copy.deepcopy(case)
    if case.get("crash") is None:
        case = ddmin_list(case, "ops", oracle, budget_s, t0)
        case = shrink_tuples(case, oracle, budget_s, t0)
        case = simplify_cfg(case, oracle)
        return case
    # with a crash: first post_ops, then ops with re-anchoring of the crash point
    case = ddmin_list(case, "post_ops", oracle, budget_s, t0)
    # prefer simpler images
    for img in ("l0",):
        c = copy.deepcopy(case)
        c["crash"]["image"] = img
        c["crash"]["second"] = None
        if _batch_fails([c], oracle)[0]:
            case = c
            break
    if case["crash"].get("second") is not None:
        c = copy.deepcopy(case)
        c["crash"]["second"] = None
        if _batch_fails([c], oracle)[0]:
            case = c
    # remove ops one at a time, re-anchoring the crash ordinal by scanning
    i = 0
    while i < len(case["ops"]) and time.time() - t0 < budget_s:
        c = copy.deepcopy(case)
        del c["ops"][i]
        dry = copy.deepcopy(c)
        dry["crash"] = None
        dry["post_ops"] = []
        dry["want_trace"] = True
        d = execute([dry], jobs=1)[0]
        m = d.get("events", 0)
        cands = []
        for k in range(0, m + 1):
            cc = copy.deepcopy(c)
            cc["crash"]["at"] = k
            cands.append(cc)
        res = _batch_fails(cands, oracle) if cands else []
        hit = [cc for cc, ok in zip(cands, res) if ok]
        if hit:
            case = hit[0]
        else:
            i += 1
    case = shrink_tuples(case, oracle, budget_s, t0)
    case = simplify_cfg(case, oracle)
    return case


# ---------------------------------------------------------------------------------- replay files

def write_replay(prop, case, outcome, note=""):
    os.makedirs(os.path.join(VERIF, "replays"), exist_ok=True)
    h = case_hash(case)
    path = os.path.join(VERIF, "replays", f"{prop}-{h}.json")
    doc = {
        "property": prop,
        "expected_oracle": oracle_of(outcome),
        "expected_detail": (outcome.get("failure") or {}).get("detail"),
        "note": note,
        "case": case,
    }
    with open(path, "w") as f:
        json.dump(doc, f, indent=1)
    return path


def replay(path):
    doc = json.load(open(path))
    build()
    out = execute([doc["case"]], jobs=1)[0]
    got = oracle_of(out)
    print(json.dumps({"expected_oracle": doc.get("expected_oracle"), "got_oracle": got,
                      "failure": out.get("failure"), "status": out.get("status")}, indent=1))
    if got == doc.get("expected_oracle") and got is not None:
        print(f"VIOLATION property={doc['property']} replay={path}")
        return 1
    if got is None and out.get("status") == "ok":
        print("replay did not reproduce the failure (property holds on this tree for this case)")
        return 0
    print("replay produced a different result than recorded")
    return 2


# ---------------------------------------------------------------------------------- known findings

def load_known():
    p = os.path.join(VERIF, "known_findings.json")
    if not os.path.exists(p):
        return {"findings": []}
    return json.load(open(p))


# ---------------------------------------------------------------------------------- evidence

def write_evidence(prop, tier, seed, level, coverage, wall_s, violations, assumptions, extra=None):
    os.makedirs(os.path.join(VERIF, "evidence"), exist_ok=True)
    doc = {
        "property_id": prop,
        "tier": tier,
        "seed": int(seed),
        "level": level,
        "coverage": coverage,
        "assumptions": assumptions,
        "wall_s": round(wall_s, 2),
        "violations": int(violations),
    }
    if extra:
        doc.update(extra)
    with open(os.path.join(VERIF, "evidence", f"{prop}.json"), "w") as f:
        json.dump(doc, f, indent=1)


COMPONENTS = {
    "real": [
        "inputlayer::StorageEngine / KnowledgeGraph / snapshot", "storage::persist::{FilePersist, PersistWal, consolidate, batch} incl. Parquet/Arrow",
        "rule_catalog, schema::catalog, storage::metadata", "protocol::handler::Handler (where the scenario says so)", "session::SessionManager",
        "IncrementalEngine + timely/differential-dataflow", "hnsw_index + hnsw_rs, index_manager, vector_ops",
        "kernel tmpfs as the page-cache view of the disk",
    ],
    "simulated": [
        "durable medium / crash images (simsys::DiskModel)", "I/O errors and short writes at the libc boundary",
        "clock_gettime/gettimeofday/nanosleep (simulated time)", "getrandom (seeded entropy: HashMap order, uuid, hnsw levels)",
        "thread interleaving at lock/DashMap/file-system switch points (simsched baton scheduler, conc scenarios)",
        "clients, session reaper and auto-compaction timers as simulated actors",
    ],
    "stub": ["axum/HTTP/WebSocket transport, TLS, rate limiting, REST DTO layer, CLI client, .agent LLM calls", "tokio multi-thread runtime"],
}
