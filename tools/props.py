"""Per-property checks (DESIGN.md §8). Each returns the process exit code."""
import collections
import copy
import json
import os
import time

import vlib
from vlib import execute, gen, oracle_of, case_hash, log

import findings


# ------------------------------------------------------------------------------------- helpers

class Acc:
    """Accumulates outcomes of one check run."""

    def __init__(self, prop, tier, seed, violation_oracles, level):
        self.prop, self.tier, self.seed, self.level = prop, tier, seed, level
        self.violation_oracles = set(violation_oracles)
        self.t0 = time.time()
        self.n = 0
        self.status = collections.Counter()
        self.oracles = collections.Counter()
        self.foreign = collections.Counter()
        self.hist = set()
        self.nontrivial = set()
        self.states = set()
        self.fs = collections.Counter()
        self.faults = collections.Counter()
        self.samples = []
        self.failing = []  # (case, outcome)
        self.harness = []
        self.extra = {}
        self.known_seen = collections.Counter()

    def add(self, case, out, nontrivial):
        self.n += 1
        st = out.get("status")
        self.status[st] += 1
        if st in ("harness", "abnormal"):
            self.harness.append((case, out))
            return
        h = case_hash(case)
        self.hist.add(h)
        if nontrivial:
            self.nontrivial.add(h)
        for s in out.get("state_hashes", []):
            self.states.add(s)
        for k, v in (out.get("fs") or {}).items():
            self.fs[k] += v
        if out.get("crash_fired"):
            self.faults["crash_at_fs_event"] += 1
            ev = out.get("crash_event") or ["?", "?"]
            self.faults["crash_in:" + window_class(ev[0], ev[1])] += 1
        if out.get("crash_boundary"):
            self.faults["crash_at_op_boundary"] += 1
        if out.get("second_crash_fired"):
            self.faults["crash_inside_recovery"] += 1
        img = out.get("image")
        if img is not None:
            if img == "l0":
                self.faults["image_L0_process_kill"] += 1
            else:
                self.faults["image_L1_power_loss"] += 1
            ist = out.get("image_stats") or [0, 0, 0, 0]
            self.faults["lost_namespace_ops"] += ist[0]
            self.faults["lost_unsynced_writes"] += ist[1]
            self.faults["torn_writes"] += ist[2]
            self.faults["lost_unsynced_files"] += ist[3]
        self.faults["io_errors_injected"] += (out.get("fs") or {}).get("faults_errno", 0)
        self.faults["short_writes_injected"] += (out.get("fs") or {}).get("faults_short", 0)
        self.faults["recoveries_executed"] += out.get("recoveries", 0) + out.get("restarts", 0)
        o = oracle_of(out)
        if o:
            self.oracles[o] += 1
            if o in self.violation_oracles or o == "panic":
                self.failing.append((case, out))
            else:
                self.foreign[o] += 1
        if len(self.samples) < 4 and nontrivial and (self.n % 97 == 1 or len(self.samples) == 0):
            self.samples.append({"case": slim_case(case), "outcome": {k: out.get(k) for k in ("status", "events", "steps_done", "crash_fired", "crash_event", "image", "restarts")}})

    def coverage(self, rule, exhaustive=False):
        wall = time.time() - self.t0
        cov = {
            "evaluations": self.n,
            "distinct_nontrivial": len(self.nontrivial),
            "rule": rule,
            "samples": self.samples[:4],
            "distinct_histories": len(self.hist),
            "distinct_states": len(self.states),
            "runs_per_hour": int(self.n / wall * 3600) if wall > 0 else 0,
            "fs_events_simulated": self.fs.get("events", 0),
            "fs": dict(self.fs),
            "faults_fired": {k: v for k, v in sorted(self.faults.items()) if v},
            "oracle_failures": dict(self.oracles),
            "foreign_oracle_failures": dict(self.foreign),
            "status": dict(self.status),
            "components": vlib.COMPONENTS,
            "known_findings_seen": dict(self.known_seen),
        }
        if exhaustive:
            cov["exhaustive"] = True
        cov.update(self.extra)
        return cov


def slim_case(case):
    c = {k: v for k, v in case.items() if k not in ("want_trace",)}
    return c


def window_class(kind, path):
    p = path
    if "wal/current.wal.new" in p:
        return f"{kind}:wal-rewrite"
    if "wal/current.wal" in p:
        return f"{kind}:wal"
    if "/batches/" in p:
        return f"{kind}:batch" + ("-tmp" if p.endswith(".tmp") else "")
    if "/shards/" in p:
        return f"{kind}:shard-meta" + ("-tmp" if p.endswith(".tmp") else "")
    if "knowledge_graphs.json" in p:
        return f"{kind}:kg-metadata" + ("-tmp" if p.endswith(".tmp") else "")
    if "rules/catalog.json" in p or p.endswith("/rules"):
        return f"{kind}:rule-catalog"
    if "schema.json" in p:
        return f"{kind}:schema-catalog"
    if "hnsw" in p or "indexes" in p:
        return f"{kind}:index-files"
    return f"{kind}:dir-or-other"


def determinism_spot_check(cases, outs, k=16):
    """Re-run a few cases; event-log hashes must match (else harness error)."""
    idx = [i for i, o in enumerate(outs) if o.get("status") in ("ok", "fail")][:: max(1, len(outs) // k)][:k]
    if not idx:
        return
    again = execute([cases[i] for i in idx])
    for i, o2 in zip(idx, again):
        if o2.get("log_hash") != outs[i].get("log_hash") or oracle_of(o2) != oracle_of(outs[i]):
            raise vlib.HarnessError(f"nondeterministic run: case #{i} seed={cases[i].get('seed')} "
                                    f"log_hash {outs[i].get('log_hash')} vs {o2.get('log_hash')}")


def finish(acc, rule, assumptions, exhaustive=False, minimiser=None):
    """Classify failures, print KNOWN-FINDING / VIOLATION lines, write evidence, return exit code."""
    prop = acc.prop
    if acc.harness:
        case, out = acc.harness[0]
        log(f"harness problem in {len(acc.harness)} runs; first: {out.get('harness_error')} case={json.dumps(slim_case(case))[:600]}")
    violations = []
    known_lines = {}
    for case, out in acc.failing:
        kf = findings.match(prop, case, out)
        if kf is not None:
            acc.known_seen[kf["id"]] += 1
            known_lines[kf["id"]] = kf
        else:
            violations.append((case, out))
    rc = 0
    for kid, kf in sorted(known_lines.items()):
        print(f"KNOWN-FINDING: property={prop} {kid}: {kf['what']} (seen in {acc.known_seen[kid]} runs)")
    replay_path = None
    if violations:
        case, out = violations[0]
        oracle = oracle_of(out)
        log(f"[{prop}] {len(violations)} violating runs; minimising the first (oracle {oracle}) ...")
        try:
            small = (minimiser or vlib.minimise_dur)(case, oracle)
            sout = execute([small], jobs=1)[0]
            if oracle_of(sout) != oracle:
                small, sout = case, out
            # a minimised case may turn out to be a known finding; then look for another one
            if findings.match(prop, small, sout) is not None:
                log(f"[{prop}] minimised case matches a known finding; reporting the unminimised run")
                small, sout = case, out
        except vlib.HarnessError as e:
            log(f"minimisation failed: {e}")
            small, sout = case, out
        replay_path = vlib.write_replay(prop, small, sout, note=f"seed={acc.seed} tier={acc.tier}; {len(violations)} violating runs in this batch")
        f = sout.get("failure") or {}
        print(f"VIOLATION property={prop} replay={replay_path}")
        print(f"  oracle={f.get('oracle')} step={f.get('step')} detail={str(f.get('detail'))[:500]}")
        print(f"  case={json.dumps(slim_case(small))[:1500]}")
        rc = 1
    cov = acc.coverage(rule, exhaustive)
    if replay_path:
        cov["first_violation_replay"] = replay_path
    vlib.write_evidence(prop, acc.tier, acc.seed, acc.level, cov, time.time() - acc.t0, len(violations), assumptions)
    if acc.harness and rc == 0:
        bad = len(acc.harness)
        if bad > max(2, acc.n // 200):
            log(f"[{prop}] too many harness-level problems ({bad}/{acc.n})")
            return 2
    log(f"[{prop}] runs={acc.n} distinct_nontrivial={len(acc.nontrivial)} failures={dict(acc.oracles)} foreign={dict(acc.foreign)} "
        f"known={dict(acc.known_seen)} wall={time.time() - acc.t0:.1f}s rc={rc}")
    return rc


ASSUME_COMMON = [
    "interleavings inside dependencies (timely, arc-swap, parquet, hnsw_rs) and weak-memory effects are not explored",
    "disk model: ordered-journal + delayed-allocation (ext4/xfs-like), not POSIX-adversarial; no bit rot",
    "transport (HTTP/WebSocket) and tokio multi-thread scheduling are stubbed; requests enter at the Handler/StorageEngine API",
    "sampling, not proof: a clean batch is evidence over the stated bounds only",
]


def has_kind(case, kinds):
    return any(op.get("op") in kinds for op in case.get("ops", []) + case.get("post_ops", []))


# ------------------------------------------------------------------------------------- C11

def check_c11(tier, seed):
    acc = Acc("C11", tier, seed, ["restart_differs_facts", "reopen_failed", "not_a_set", "observe_failed"], "exploration")
    n_rand = 1500 if tier == "quick" else 60000
    max_len_enum = 4 if tier == "quick" else 5
    # bounded sub-space, walked completely: all histories of length <= max_len over the 7-symbol alphabet
    n_enum = sum(7 ** l for l in range(1, max_len_enum + 1))
    cases = []
    for frm in range(0, n_enum, 5000):
        cases += [c for c in gen("c11enum", seed, frm, min(5000, n_enum - frm), ["--p1", "10000"])]
    if tier != "quick":
        for frm in range(0, n_enum, 5000):
            cases += [c for c in gen("c11enum", seed, frm, min(5000, n_enum - frm), ["--p1", "2"])]
    cases += gen("c11", seed, 0, n_rand)
    outs = execute(cases)
    determinism_spot_check(cases, outs)
    for c, o in zip(cases, outs):
        nt = has_kind(c, ("insert", "delete")) and has_kind(c, ("restart",))
        acc.add(c, o, nt)
    acc.extra["enumerated_subspace"] = {"alphabet": ["ins t1", "ins t2", "del t1", "del t2", "save_all", "compact_all", "restart"],
                                        "max_len": max_len_enum, "cases": n_enum, "final_restart": True}
    rule = ("bounded sub-space walked completely (all histories of length <= %d over a 7-symbol alphabet, final restart) plus "
            "seeded random histories of 3-12 operations over 2-3 tuples and 1-2 relations with buffer_size/max_wal knobs drawn per run; "
            "non-trivial = contains at least one insert/delete and at least one restart; distinct = distinct (config, operation list)" % max_len_enum)
    return finish(acc, rule, ASSUME_COMMON + ["faults off: clean restarts only (crashes belong to C13)"], exhaustive=False)


# ------------------------------------------------------------------------------------- C12

def check_c12(tier, seed):
    acc = Acc("C12", tier, seed, ["restart_differs_facts", "reopen_failed", "not_a_set", "observe_failed", "op_failed"], "exploration")
    n = 3000 if tier == "quick" else 120000
    cases = gen("c12", seed, 0, n)
    for c in cases:
        c["check_model"] = False
    outs = execute(cases)
    determinism_spot_check(cases, outs)
    kinds = collections.Counter()
    for c, o in zip(cases, outs):
        for op in c["ops"]:
            for t in op.get("tuples", []):
                for v in t:
                    kinds[next(iter(v)) if isinstance(v, dict) else str(v)] += 1
        acc.add(c, o, has_kind(c, ("insert",)) and o.get("restarts", 0) > 0)
    acc.extra["value_kinds_generated"] = dict(kinds)
    rule = ("seeded value swarm: relations of arity 1-3, columns homogeneous / pairwise mixed / freely mixed over all nine value kinds "
            "(Int32/Int64 boundaries, Float64 incl. -0.0, NaN payloads, inf, subnormal; strings with quotes/newlines/non-BMP; Bool; Null; Timestamp; "
            "Vector and VectorInt8 of dimension 0-4); storage paths WAL-only / flushed / compacted / drained-at-startup; 1-2 clean restarts; "
            "oracle = bit-exact tagged equality of the relation before and after each restart; non-trivial = at least one insert reached a restart")
    return finish(acc, rule, ASSUME_COMMON + ["faults off"])


CHECKS = {
    "C11": check_c11,
    "C12": check_c12,
}


# ------------------------------------------------------------------------------------- selftests

def selftest(which, seed):
    vlib.build()
    if which == "determinism":
        fams = [("c11", 300), ("c12", 300)]
        bad = 0
        total = 0
        for fam, n in fams:
            cases = gen(fam, seed, 0, n)
            a = execute(cases, jobs=16)
            b = execute(cases, jobs=5)
            for i, (x, y) in enumerate(zip(a, b)):
                total += 1
                if x.get("log_hash") != y.get("log_hash") or oracle_of(x) != oracle_of(y):
                    bad += 1
                    log(f"nondeterministic: family={fam} index={i} seed={cases[i].get('seed')}")
        print(f"determinism: {total} cases run twice (16 and 5 workers), {bad} mismatches")
        return 0 if bad == 0 else 2
    print("unknown selftest")
    return 2
