"""Per-property checks (DESIGN.md §8). Each returns the process exit code."""
import collections
import copy
import json
import os
import time

import vlib
from vlib import execute, gen, oracle_of, case_hash, log

import findings


# ------------------------------------------------------------------------------------- helpers

class Acc:
    """Accumulates outcomes of one check run."""

    def __init__(self, prop, tier, seed, violation_oracles, level):
        self.prop, self.tier, self.seed, self.level = prop, tier, seed, level
        self.violation_oracles = set(violation_oracles)
        self.t0 = time.time()
        self.n = 0
        self.status = collections.Counter()
        self.oracles = collections.Counter()
        self.foreign = collections.Counter()
        self.hist = set()
        self.nontrivial = set()
        self.states = set()
        self.fs = collections.Counter()
        self.faults = collections.Counter()
        self.samples = []
        self.failing = []  # (case, outcome)
        self.harness = []
        self.extra = {}
        self.known_seen = collections.Counter()

    def add(self, case, out, nontrivial):
        self.n += 1
        st = out.get("status")
        self.status[st] += 1
        if st in ("harness", "abnormal"):
            self.harness.append((case, out))
            return
        h = case_hash(case)
        if case.get("scenario") == "vec":
            h += ":%s" % case.get("seed")  # the entropy seed is part of the case (hnsw_rs level draws)
        self.hist.add(h)
        if nontrivial:
            self.nontrivial.add(h)
        for s in out.get("state_hashes", []):
            self.states.add(s)
        for k, v in (out.get("fs") or {}).items():
            self.fs[k] += v
        if out.get("crash_fired"):
            self.faults["crash_at_fs_event"] += 1
            ev = out.get("crash_event") or ["?", "?"]
            self.faults["crash_in:" + window_class(ev[0], ev[1])] += 1
        if out.get("crash_boundary"):
            self.faults["crash_at_op_boundary"] += 1
        if out.get("second_crash_fired"):
            self.faults["crash_inside_recovery"] += 1
        img = out.get("image")
        if img is not None:
            if img == "l0":
                self.faults["image_L0_process_kill"] += 1
            else:
                self.faults["image_L1_power_loss"] += 1
            ist = out.get("image_stats") or [0, 0, 0, 0]
            self.faults["lost_namespace_ops"] += ist[0]
            self.faults["lost_unsynced_writes"] += ist[1]
            self.faults["torn_writes"] += ist[2]
            self.faults["lost_unsynced_files"] += ist[3]
        self.faults["io_errors_injected"] += (out.get("fs") or {}).get("faults_errno", 0)
        self.faults["short_writes_injected"] += (out.get("fs") or {}).get("faults_short", 0)
        self.faults["recoveries_executed"] += out.get("recoveries", 0) + out.get("restarts", 0)
        o = oracle_of(out)
        if o:
            self.oracles[o] += 1
            if o in self.violation_oracles or o == "panic":
                self.failing.append((case, out))
            else:
                self.foreign[o] += 1
        if len(self.samples) < 4 and nontrivial and (self.n % 97 == 1 or len(self.samples) == 0):
            self.samples.append({"case": slim_case(case), "outcome": {k: out.get(k) for k in ("status", "events", "steps_done", "crash_fired", "crash_event", "image", "restarts")}})

    def coverage(self, rule, exhaustive=False):
        wall = time.time() - self.t0
        cov = {
            "evaluations": self.n,
            "distinct_nontrivial": len(self.nontrivial),
            "rule": rule,
            "samples": self.samples[:4],
            "distinct_histories": len(self.hist),
            "distinct_states": len(self.states),
            "runs_per_hour": int(self.n / wall * 3600) if wall > 0 else 0,
            "seeds_per_hour": int(self.n / wall * 3600) if wall > 0 else 0,  # one derived seed = one run (run seed = VERIF_SEED * 2^32 + index)
            "fs_events_simulated": self.fs.get("events", 0),
            "fs": dict(self.fs),
            "faults_fired": {k: v for k, v in sorted(self.faults.items()) if v},
            "oracle_failures": dict(self.oracles),
            "foreign_oracle_failures": dict(self.foreign),
            "status": dict(self.status),
            "components": vlib.COMPONENTS,
            "known_findings_seen": dict(self.known_seen),
        }
        if exhaustive:
            cov["exhaustive"] = True
        cov.update(self.extra)
        return cov


def slim_case(case):
    c = {k: v for k, v in case.items() if k not in ("want_trace",)}
    return c


def window_class(kind, path):
    p = path
    if "wal/current.wal.new" in p:
        return f"{kind}:wal-rewrite"
    if "wal/current.wal" in p:
        return f"{kind}:wal"
    if "/batches/" in p:
        return f"{kind}:batch" + ("-tmp" if p.endswith(".tmp") else "")
    if "/shards/" in p:
        return f"{kind}:shard-meta" + ("-tmp" if p.endswith(".tmp") else "")
    if "knowledge_graphs.json" in p:
        return f"{kind}:kg-metadata" + ("-tmp" if p.endswith(".tmp") else "")
    if "rules/catalog.json" in p or p.endswith("/rules"):
        return f"{kind}:rule-catalog"
    if "schema.json" in p:
        return f"{kind}:schema-catalog"
    if "hnsw" in p or "indexes" in p:
        return f"{kind}:index-files"
    return f"{kind}:dir-or-other"


def determinism_spot_check(cases, outs, k=16):
    """Re-run a few cases; event-log hashes must match (else harness error)."""
    idx = [i for i, o in enumerate(outs) if o.get("status") in ("ok", "fail")][:: max(1, len(outs) // k)][:k]
    if not idx:
        return
    again = execute([cases[i] for i in idx])
    for i, o2 in zip(idx, again):
        if o2.get("log_hash") != outs[i].get("log_hash") or oracle_of(o2) != oracle_of(outs[i]):
            raise vlib.HarnessError(f"nondeterministic run: case #{i} seed={cases[i].get('seed')} "
                                    f"log_hash {outs[i].get('log_hash')} vs {o2.get('log_hash')}")


def finish(acc, rule, assumptions, exhaustive=False, minimiser=None):
    """Classify failures, print KNOWN-FINDING / VIOLATION lines, write evidence, return exit code."""
    prop = acc.prop
    if acc.harness:
        case, out = acc.harness[0]
        log(f"harness problem in {len(acc.harness)} runs; first: {out.get('harness_error')} case={json.dumps(slim_case(case))[:600]}")
    violations = []
    known_lines = {}
    for case, out in acc.failing:
        kf = findings.match(prop, case, out)
        if kf is not None:
            acc.known_seen[kf["id"]] += 1
            known_lines[kf["id"]] = kf
        else:
            violations.append((case, out))
    rc = 0
    for kid, kf in sorted(known_lines.items()):
        print(f"KNOWN-FINDING: property={prop} {kid}: {kf['what']} (seen in {acc.known_seen[kid]} runs)")
    replay_path = None
    if violations:
        case, out = violations[0]
        oracle = oracle_of(out)
        log(f"[{prop}] {len(violations)} violating runs; minimising the first (oracle {oracle}) ...")
        try:
            small = (minimiser or vlib.minimise_dur)(case, oracle)
            sout = execute([small], jobs=1)[0]
            if oracle_of(sout) != oracle:
                small, sout = case, out
            # make the replay explicit: a drawn crash image is replaced by the resolved one
            if small.get("crash") and isinstance(small["crash"].get("image"), dict) and "draw" in small["crash"]["image"] and sout.get("image") is not None:
                expl = copy.deepcopy(small)
                expl["crash"]["image"] = sout["image"]
                eout = execute([expl], jobs=1)[0]
                if oracle_of(eout) == oracle:
                    small, sout = expl, eout
            # a minimised case may turn out to be a known finding; then look for another one
            if findings.match(prop, small, sout) is not None:
                log(f"[{prop}] minimised case matches a known finding; reporting the unminimised run")
                small, sout = case, out
        except vlib.HarnessError as e:
            log(f"minimisation failed: {e}")
            small, sout = case, out
        replay_path = vlib.write_replay(prop, small, sout, note=f"seed={acc.seed} tier={acc.tier}; {len(violations)} violating runs in this batch")
        f = sout.get("failure") or {}
        print(f"VIOLATION property={prop} replay={replay_path}")
        print(f"  oracle={f.get('oracle')} step={f.get('step')} detail={str(f.get('detail'))[:500]}")
        print(f"  case={json.dumps(slim_case(small))[:1500]}")
        rc = 1
    cov = acc.coverage(rule, exhaustive)
    if replay_path:
        cov["first_violation_replay"] = replay_path
    vlib.write_evidence(prop, acc.tier, acc.seed, acc.level, cov, time.time() - acc.t0, len(violations), assumptions)
    if acc.harness and rc == 0:
        bad = len(acc.harness)
        if bad > max(2, acc.n // 200):
            log(f"[{prop}] too many harness-level problems ({bad}/{acc.n})")
            return 2
    log(f"[{prop}] runs={acc.n} distinct_nontrivial={len(acc.nontrivial)} failures={dict(acc.oracles)} foreign={dict(acc.foreign)} "
        f"known={dict(acc.known_seen)} wall={time.time() - acc.t0:.1f}s rc={rc}")
    return rc


ASSUME_COMMON = [
    "interleavings inside dependencies (timely, arc-swap, parquet, hnsw_rs) and weak-memory effects are not explored",
    "disk model: ordered-journal + delayed-allocation (ext4/xfs-like), not POSIX-adversarial; no bit rot",
    "transport (HTTP/WebSocket) and tokio multi-thread scheduling are stubbed; requests enter at the Handler/StorageEngine API",
    "sampling, not proof: a clean batch is evidence over the stated bounds only",
]


def has_kind(case, kinds):
    return any(op.get("op") in kinds for op in case.get("ops", []) + case.get("post_ops", []))


# ------------------------------------------------------------------------------------- C11

def check_c11(tier, seed):
    acc = Acc("C11", tier, seed, ["restart_differs_facts", "reopen_failed", "not_a_set", "observe_failed"], "exploration")
    n_rand = 1500 if tier == "quick" else 24000
    max_len_enum = 4 if tier == "quick" else 5
    # bounded sub-space, walked completely: all histories of length <= max_len over the 7-symbol alphabet
    n_enum = sum(7 ** l for l in range(1, max_len_enum + 1))
    cases = []
    for frm in range(0, n_enum, 5000):
        cases += [c for c in gen("c11enum", seed, frm, min(5000, n_enum - frm), ["--p1", "10000"])]
    if tier != "quick":
        for frm in range(0, n_enum, 5000):
            cases += [c for c in gen("c11enum", seed, frm, min(5000, n_enum - frm), ["--p1", "2"])]
    cases += gen("c11", seed, 0, n_rand)
    outs = execute(cases)
    determinism_spot_check(cases, outs)
    for c, o in zip(cases, outs):
        nt = has_kind(c, ("insert", "delete")) and has_kind(c, ("restart",))
        acc.add(c, o, nt)
    acc.extra["enumerated_subspace"] = {"alphabet": ["ins t1", "ins t2", "del t1", "del t2", "save_all", "compact_all", "restart"],
                                        "max_len": max_len_enum, "cases": n_enum, "final_restart": True}
    rule = ("bounded sub-space walked completely (all histories of length <= %d over a 7-symbol alphabet, final restart) plus "
            "seeded random histories of 3-12 operations over 2-3 tuples and 1-2 relations with buffer_size/max_wal knobs drawn per run; "
            "non-trivial = contains at least one insert/delete and at least one restart; distinct = distinct (config, operation list)" % max_len_enum)
    return finish(acc, rule, ASSUME_COMMON + ["faults off: clean restarts only (crashes belong to C13)"], exhaustive=False)


# ------------------------------------------------------------------------------------- C12

def check_c12(tier, seed):
    acc = Acc("C12", tier, seed, ["restart_differs_facts", "reopen_failed", "not_a_set", "observe_failed", "op_failed"], "exploration")
    n = 3000 if tier == "quick" else 36000
    cases = gen("c12", seed, 0, n)
    for c in cases:
        c["check_model"] = False
    outs = execute(cases)
    determinism_spot_check(cases, outs)
    kinds = collections.Counter()
    for c, o in zip(cases, outs):
        for op in c["ops"]:
            for t in op.get("tuples", []):
                for v in t:
                    kinds[next(iter(v)) if isinstance(v, dict) else str(v)] += 1
        acc.add(c, o, has_kind(c, ("insert",)) and o.get("restarts", 0) > 0)
    acc.extra["value_kinds_generated"] = dict(kinds)
    rule = ("seeded value swarm: relations of arity 1-3, columns homogeneous / pairwise mixed / freely mixed over all nine value kinds "
            "(Int32/Int64 boundaries, Float64 incl. -0.0, NaN payloads, inf, subnormal; strings with quotes/newlines/non-BMP; Bool; Null; Timestamp; "
            "Vector and VectorInt8 of dimension 0-4); storage paths WAL-only / flushed / compacted / drained-at-startup; 1-2 clean restarts; "
            "oracle = bit-exact tagged equality of the relation before and after each restart; non-trivial = at least one insert reached a restart")
    return finish(acc, rule, ASSUME_COMMON + ["faults off"])


# ------------------------------------------------------------------------------------- crash checks

def splitmix(x):
    x = (x + 0x9E3779B97F4A7C15) & 0xFFFFFFFFFFFFFFFF
    z = x
    z = ((z ^ (z >> 30)) * 0xBF58476D1CE4E5B9) & 0xFFFFFFFFFFFFFFFF
    z = ((z ^ (z >> 27)) * 0x94D049BB133111EB) & 0xFFFFFFFFFFFFFFFF
    return x, z ^ (z >> 31)


class PRng:
    def __init__(self, seed):
        self.s = seed & 0xFFFFFFFFFFFFFFFF

    def next(self):
        self.s, v = splitmix(self.s)
        return v

    def below(self, n):
        return self.next() % n if n > 0 else 0

    def chance(self, num, den):
        return self.below(den) < num


def crash_points(trace, interesting):
    """Collapse the event list into weighted crash-point candidates. Consecutive writes to the same
    path are near-equivalent crash points: keep the first, the last and one in the middle."""
    pts = []
    i = 0
    n = len(trace)
    while i < n:
        ordn, kind, path, ln = trace[i]
        j = i
        if kind == "write":
            while j + 1 < n and trace[j + 1][1] == "write" and trace[j + 1][2] == path:
                j += 1
        idxs = sorted(set([i, j, (i + j) // 2]))
        for k in idxs:
            o, kd, pth, _ = trace[k]
            w = 1.0
            cls = window_class(kd, pth)
            if any(t in cls for t in interesting):
                w = 6.0
            if "kg-metadata-tmp" in cls and kd == "write":
                w = 0.3
            pts.append((o, cls, w))
        i = j + 1
    return pts


def weighted_sample(rng, pts, k):
    out = []
    pool = list(pts)
    for _ in range(min(k, len(pool))):
        tot = sum(p[2] for p in pool)
        x = (rng.next() % 10**9) / 10**9 * tot
        acc = 0
        for idx, p in enumerate(pool):
            acc += p[2]
            if acc >= x:
                out.append(pool.pop(idx))
                break
    return out


FAULT_TARGET_KINDS = ("insert", "delete", "save_kg", "save_all", "compact_all", "compact_if_needed")
EIO, ENOSPC, EINTR, EMFILE = 5, 28, 4, 24


def fault_code(rng, kind, ln):
    """An I/O fault that a real deployment meets at a call of this kind (positive = errno, negative = short write)."""
    if kind == "write":
        r = rng.below(10)
        if r < 3:
            return EIO
        if r < 6:
            return ENOSPC
        if r < 8 and ln > 1:
            return -(1 + rng.below(max(1, min(ln - 1, 64))))
        return EINTR
    if kind == "fsync":
        return EIO if rng.chance(3, 4) else EINTR
    if kind == "create":
        return [ENOSPC, EMFILE, EIO, EINTR][rng.below(4)]
    if kind in ("rename", "mkdir"):
        return [EIO, ENOSPC][rng.below(2)]
    return EIO


def fault_mix_cases(hist, douts, post_ops, tier, variants_quick=2, variants_thorough=8):
    """DESIGN §3 'other fault kinds' / §6.4: re-run histories with one or two injected I/O errors inside
    insert/delete/save/compact operations, then a crash (end of history or a later event) or a clean restart,
    then the latent-damage tail. Fault-free and fault-injecting configurations are separate runs."""
    cases = []
    for c, d in zip(hist, douts):
        if d.get("status") != "ok":
            continue
        ranges = [(a, b) for (a, b, k) in d.get("op_ranges", []) if k in FAULT_TARGET_KINDS and b > a]
        if not ranges:
            continue
        tr = {e[0]: e for e in d.get("trace", [])}
        evs = [tr[o] for (a, b) in ranges for o in range(a, b) if o in tr]
        if not evs:
            continue
        rng = PRng(c["seed"] ^ 0xFA17)
        m = d.get("events", 0)
        for _v in range(variants_quick if tier == "quick" else variants_thorough):
            cc = copy.deepcopy(c)
            picks = 1 if rng.chance(7, 10) else 2
            faults = {}
            for _ in range(picks):
                o, kind, _path, ln = evs[rng.below(len(evs))]
                faults[o] = fault_code(rng, kind, ln)
            cc["faults"] = sorted([o, code] for o, code in faults.items())
            first = min(faults)
            r = rng.below(10)
            if r < 5:
                cc["crash"] = {"at": m + 1000, "inflight_write": False, "image": {"draw": rng.next()}, "second": None}
                cc["post_ops"] = post_ops
            elif r < 8 and m > first + 1:
                cc["crash"] = {"at": first + 1 + rng.below(m - first), "inflight_write": rng.chance(1, 2), "image": {"draw": rng.next()}, "second": None}
                cc["post_ops"] = post_ops
            else:
                cc["ops"] = cc["ops"] + [{"op": "restart"}] + [op for op in post_ops]
            cases.append(cc)
    return cases


def crash_check(prop, tier, seed, family, post_family, oracles, interesting, n_hist_quick, k_quick, n_hist_thorough, rule, assumptions,
                second_ratio=5, level="fault_enumeration", fault_mix=False, handler_family=None):
    acc = Acc(prop, tier, seed, oracles, level)
    n_hist = n_hist_quick if tier == "quick" else n_hist_thorough
    hist = gen(family, seed, 0, n_hist)
    post_ops = gen(post_family, seed, 0, 1)[0]["ops"]
    dry = []
    for c in hist:
        d = copy.deepcopy(c)
        d["want_trace"] = True
        dry.append(d)
    t = time.time()
    douts = execute(dry)
    log(f"[{prop}] {len(dry)} dry runs in {time.time() - t:.1f}s")
    cases = []
    windows = collections.Counter()
    crashpoints_total = 0
    # quick tier, first pass: every *window* - (class of the event that does not happen, class of the event
    # before it) - gets a quota of crash points across the whole batch, so that a window one system call
    # wide (rename after unlink of the WAL, ...) is hit even if it is rare in any single history
    quota = {}
    if tier == "quick":
        by_window = collections.defaultdict(list)
        for hi, d in enumerate(douts):
            if d.get("status") != "ok":
                continue
            tr = d.get("trace", [])
            for j, (ordn, kind, path, _ln) in enumerate(tr):
                if kind == "write" and j > 0 and tr[j - 1][1] == "write" and tr[j - 1][2] == path:
                    continue
                prev = window_class(tr[j - 1][1], tr[j - 1][2]) if j > 0 else "start"
                by_window[(window_class(kind, path), prev)].append((hi, ordn))
        qrng = PRng(seed ^ 0x51DE)
        for key in sorted(by_window):
            pool = by_window[key]
            for _ in range(min(8, len(pool))):
                hi, ordn = pool.pop(qrng.below(len(pool)))
                quota.setdefault(hi, []).append((ordn, key[0] + "<-" + key[1], 1.0))
    for hi, (c, d) in enumerate(zip(hist, douts)):
        acc.add(c, {k: v for k, v in d.items() if k != "trace"}, False)
        if d.get("status") != "ok":
            continue
        pts = crash_points(d.get("trace", []), interesting)
        crashpoints_total += len(pts)
        rng = PRng(c["seed"] ^ 0xC0FFEE)
        if tier == "quick":
            chosen = weighted_sample(rng, pts, k_quick)
            have = {p[0] for p in chosen}
            chosen += [q for q in quota.get(hi, []) if q[0] not in have]
            variants = 1
        else:
            chosen = pts
            variants = 2
        m = d.get("events", 0)
        if rng.chance(1, 2) or tier != "quick":
            chosen = chosen + [(m + 5, "boundary:end-of-history", 1.0)]
        for (ordn, cls, _w) in chosen:
            for v in range(variants):
                cc = copy.deepcopy(c)
                second = None
                if rng.chance(1, second_ratio):
                    second = [rng.below(80), {"draw": rng.next()}]
                cc["crash"] = {"at": ordn, "inflight_write": rng.chance(1, 2), "image": ("l0" if (variants > 1 and v == 0) else {"draw": rng.next()}), "second": second}
                cc["post_ops"] = post_ops
                cases.append(cc)
                windows[cls] += 1
            # torn-write variants: a crash while a log/catalog write is being made durable keeps every
            # namespace operation and a drawn, possibly torn, prefix of the unsynced data
            if cls in ("fsync:wal", "write:wal", "fsync:wal-rewrite", "fsync:rule-catalog", "fsync:schema-catalog") and (tier != "quick" or rng.chance(1, 2)):
                for _ in range(2):
                    cc = copy.deepcopy(c)
                    cc["crash"] = {"at": ordn, "inflight_write": True, "image": {"l1": {"ns_keep": 1000, "data": {"random": rng.next()}}}, "second": None}
                    cc["post_ops"] = post_ops
                    cases.append(cc)
                    windows["torn:" + cls] += 1
    t = time.time()
    outs = execute(cases, timeout_s=300)
    log(f"[{prop}] {len(cases)} crash runs in {time.time() - t:.1f}s")
    determinism_spot_check(cases, outs, k=12)
    for c, o in zip(cases, outs):
        acc.add(c, o, (o.get("crash_fired") or o.get("crash_boundary")) and has_kind(c, ("insert", "delete", "register_rule", "register_schema", "create_kg", "drop_kg", "drop_relation")))
    if fault_mix:
        fcases = fault_mix_cases(hist, douts, post_ops, tier)
        t = time.time()
        fouts = execute(fcases, timeout_s=300)
        log(f"[{prop}] {len(fcases)} I/O-error fault-mix runs in {time.time() - t:.1f}s")
        determinism_spot_check(fcases, fouts, k=8)
        fm = collections.Counter()
        for c, o in zip(fcases, fouts):
            fired = (o.get("fs") or {}).get("faults_errno", 0) + (o.get("fs") or {}).get("faults_short", 0)
            acc.add(c, o, fired > 0 and has_kind(c, ("insert", "delete")))
            fm["runs"] += 1
            fm["runs_with_fault_fired"] += 1 if fired else 0
            fm["operations_left_indeterminate"] += o.get("indeterminate_ops", 0)
            fm["max_candidate_models"] = max(fm["max_candidate_models"], o.get("max_candidates", 0))
            for code, n in (o.get("errno_by_code") or {}).items():
                fm["errno_%s" % {"5": "EIO", "28": "ENOSPC", "4": "EINTR", "24": "EMFILE"}.get(str(code), code)] += n
            fm["short_writes"] += (o.get("fs") or {}).get("faults_short", 0)
        acc.extra["io_error_fault_mix"] = dict(fm)
    if handler_family:
        fam, nq, nt = handler_family
        hcases = gen(fam, seed, 0, nq if tier == "quick" else nt)
        t = time.time()
        houts = execute(hcases, timeout_s=300)
        log(f"[{prop}] {len(hcases)} handler-level histories in {time.time() - t:.1f}s")
        q = 0
        for c, o in zip(hcases, houts):
            acc.add(c, o, hop_kinds(c).get("restart", 0) >= 1 and hop_kinds(c).get("query", 0) >= 1)
            q += o.get("queries_checked", 0)
        acc.extra["handler_level_histories"] = {"family": fam, "runs": len(hcases), "answers_checked_against_fresh_evaluation": q}
    acc.extra["histories"] = len(hist)
    acc.extra["crash_point_candidates_after_collapsing"] = crashpoints_total
    acc.extra["crash_windows_targeted"] = dict(windows.most_common(60))
    acc.extra["distinct_crash_windows"] = len(windows)
    acc.extra["exhaustive_crash_points_per_history"] = tier != "quick"
    return finish(acc, rule, assumptions)


def check_c13(tier, seed):
    oracles = ["reopen_failed_after_crash", "recovered_not_prefix_facts", "not_a_set", "observe_failed", "reopen_failed",
               "restart_differs_facts", "post:restart_differs_facts", "post:live_differs_from_model_facts", "post:reopen_failed",
               "post:report_mismatch", "post:not_a_set", "post:query_differs_from_snapshot", "post:query_failed", "post:op_result_class",
               "live_differs_from_model_facts", "open_failed"]
    rule = ("stage 1: seeded histories of 2-8 operations (insert/delete incl. duplicates and absent tuples, save, compact, drop relation, create/drop KG, "
            "restart) in immediate mode with buffer_size/max_wal knobs, run fault-free to record the file-system event list; stage 2: one crash per run at a "
            "file-system event (quick: weighted sample biased to flush/compaction/WAL-rewrite/drop windows; thorough: every collapsed crash point x {L0, drawn "
            "L1 image}) or at the end of the history, crash image drawn from {L0 process kill, L1 power loss with lost namespace suffix / lost or torn unsynced "
            "data}, every fifth run crashes a second time inside recovery; oracles: store reopens, contents = acknowledged prefix (+/- the in-flight operation, "
            "atomically), then 7 more operations incl. delete/re-insert/query and two clean restarts must match the model (latent damage, bounded liveness); "
            "non-trivial = a crash fired and the history contains a state-changing operation")
    rule += ("; separate fault-mix configuration: the same histories re-run with one or two injected I/O errors (EIO, ENOSPC, EMFILE, EINTR, short writes) at file-system "
             "calls inside insert/delete/save/compact operations, followed by a crash or a clean restart and the same tail; an operation that returned an error after an "
             "injected fault is indeterminate (wholly applied or wholly absent, may surface only across a restart), every acknowledged operation must survive, the store must reopen")
    return crash_check("C13", tier, seed, "c13", "post_standard", oracles,
                       ["batch", "shard-meta", "wal", "unlink", "rename", "rmdir"], 260, 6, 150, rule,
                       ASSUME_COMMON + ["immediate durability mode only (the property's scope)", "rule/schema catalog writes are left to C16",
                                        "I/O errors are injected only inside insert/delete/save/compact operations (a drop that fails half-way is outside the statement)"],
                       fault_mix=True)


def check_c16(tier, seed):
    oracles = ["reopen_failed_after_crash", "recovered_not_prefix_rules", "recovered_not_prefix_schemas", "recovered_not_prefix_facts",
               "restart_differs_rules", "restart_differs_schemas", "reopen_failed", "open_failed", "observe_failed",
               "live_differs_from_model_rules", "live_differs_from_model_schemas",
               "post:restart_differs_rules", "post:restart_differs_schemas", "post:reopen_failed", "post:live_differs_from_model_rules",
               "post:live_differs_from_model_schemas", "post:report_mismatch", "post:op_result_class", "report_mismatch"]
    rule = ("stage 1: seeded histories of 2-8 catalog operations (register rule: new rule / added clause / duplicate clause, drop rule, clear rule, remove "
            "clause, register/remove schema) with data inserts and clean restarts in between on 1-2 knowledge graphs; stage 2: one crash per run at a "
            "file-system event (biased to the catalog files: open(O_TRUNC), each write, close window) or at the end, image drawn from {L0, L1 variants}, "
            "optional second crash inside recovery; oracles: store reopens, every KG opens, rule names + clause counts + describe text and schemas = "
            "acknowledged prefix or that prefix plus the in-flight catalog operation (old or new, never a third state, never silently empty), then a rule "
            "registration / restart / drop / restart tail must match the model; non-trivial = crash fired and history has a catalog operation")
    oracles += ["stateless_query_differs_from_fresh_evaluation", "persistent_rules_differ_from_model", "persistent_facts_differ_from_model"]
    rule += ("; Handler-level family c16h (faults off): rules from the same shape pool are registered with `+<clause>` through the real Handler (which prints the parsed rule, re-parses "
             "the text and stores the result), queried, and queried again after clean restarts; oracle: answers = fresh evaluation on a pristine store that registered the ORIGINAL text "
             "through the engine API")
    return crash_check("C16", tier, seed, "c16", "post_catalog", oracles,
                       ["rule-catalog", "schema-catalog"], 300, 6, 200, rule,
                       ASSUME_COMMON + ["immediate durability mode", "rule texts come from a pool of 27 safe clause shapes; describe texts and probe answers are compared across restarts"],
                       handler_family=("c16h", 700, 7000))


def check_c17(tier, seed):
    """history half (a): multi-KG histories with prefix-related names and restarts, faults off"""
    acc = Acc("C17", tier, seed, ["restart_differs_facts", "restart_differs_rules", "restart_differs_schemas", "reopen_failed",
                                  "live_differs_from_model_facts", "live_differs_from_model_rules", "live_differs_from_model_schemas",
                                  "not_a_set", "observe_failed", "op_result_class", "report_mismatch"], "exploration")
    n = 1500 if tier == "quick" else 18000
    cases = gen("c17", seed, 0, n)
    outs = execute(cases)
    determinism_spot_check(cases, outs)
    for c, o in zip(cases, outs):
        acc.add(c, o, has_kind(c, ("drop_kg",)) and has_kind(c, ("insert",)) and o.get("restarts", 0) > 0)
    rule = ("seeded histories of 4-14 operations over 3-4 knowledge graphs whose names are prefixes of each other (a, ab, a_b / default, default2): "
            "create/drop/re-create, inserts/deletes (also addressed to dropped or never-created graphs), rules, schemas, saves, compactions, clean restarts; "
            "oracle after every step and every restart: the set of graphs and every graph's facts/rules/schemas = model (so another graph's state is "
            "untouched, a dropped graph never reappears, a re-created graph is empty); non-trivial = history contains a drop, an insert and a restart")
    acc.extra["history_half"] = {"runs": acc.n}
    # schedule half: insert || drop || re-create under seeded schedules, then (half of the runs) a crash
    cacc = ConcAcc("C17", tier, seed, ["not_linearizable", "recovered_not_linearizable", "deadlock", "not_a_set", "reopen_failed_after_crash", "observe_failed",
                                       "post:restart_differs_facts", "post:restart_differs_rules", "post:restart_differs_schemas", "post:reopen_failed"], "exploration")
    conc_batch(cacc, [("c17b", 450 if tier == "quick" else 5000)], seed, crash_share_num=1, crash_share_den=2,
               interesting=("unlink", "rmdir", "kg-metadata", "shard-meta", "wal"))
    cacc.conc_extra()
    # merge the schedule half into the main accumulator
    acc.n += cacc.n
    acc.status.update(cacc.status)
    acc.oracles.update(cacc.oracles)
    acc.foreign.update(cacc.foreign)
    acc.hist |= cacc.hist
    acc.nontrivial |= cacc.nontrivial
    acc.states |= cacc.states
    acc.fs.update(cacc.fs)
    acc.faults.update(cacc.faults)
    acc.failing += cacc.failing
    acc.harness += cacc.harness
    acc.samples += cacc.samples[:2]
    acc.extra.update(cacc.extra)
    acc.violation_oracles |= cacc.violation_oracles
    rule += ("; schedule half: a knowledge graph x (with a prefix-named sibling xy) is dropped / re-created while 1-2 other threads insert into it, delete from it and "
             "read it, under seeded schedules, half of the runs additionally crash at a file-system event of the concurrent phase; oracle: exhaustive linearization search (a read "
             "of a re-created graph never shows tuples inserted before the drop; other graphs untouched), recovered state after a crash explained by the acknowledged operations")
    def mini(case, oracle):
        return minimise_conc(case, oracle) if "threads" in case else vlib.minimise_dur(case, oracle)
    return finish(acc, rule, CONC_ASSUME + ["history half runs fault-free"], minimiser=mini)


# ------------------------------------------------------------------------------------- C14 (twin runs)

MAINT_OPS = [{"op": "save_all"}, {"op": "compact_all"}, {"op": "save_kg", "kg": "default"}, {"op": "compact_if_needed", "threshold": 1},
             {"op": "compact_if_needed", "threshold": 2}]


def c14_make_twin(base, rng):
    """A = base history without maintenance (big buffer, immediate); B = same history with seeded knobs and maintenance operations woven in.
    Returns (A, B, posA, posB): positions of the base operations inside each op list."""
    a = copy.deepcopy(base)
    a["cfg"] = {"buffer_size": 10000, "max_wal": 0, "durability": "immediate", "num_threads": 1}
    b = copy.deepcopy(base)
    b["cfg"] = {"buffer_size": [1, 2, 3][rng.below(3)], "max_wal": [0, 300, 2000][rng.below(3)],
                "durability": ["immediate", "batched", "async"][rng.below(3)], "num_threads": [1, 2, 4][rng.below(3)]}
    ops_b, pos_b = [], []
    for op in base["ops"]:
        while rng.chance(2, 5):
            ops_b.append(copy.deepcopy(MAINT_OPS[rng.below(len(MAINT_OPS))]))
        if op.get("op") == "restart" and rng.chance(2, 3):
            # maintenance right before a process exit: what the next start-up finds on disk is what it wrote
            ops_b.append(copy.deepcopy(MAINT_OPS[rng.below(2)]))
        pos_b.append(len(ops_b))
        if op.get("op") == "restart" and b["cfg"]["durability"] != "immediate":
            # batched / async modes promise the state for a graceful shutdown only
            ops_b.append({"op": "shutdown_restart"})
        else:
            ops_b.append(copy.deepcopy(op))
    while rng.chance(1, 2):
        ops_b.append(copy.deepcopy(MAINT_OPS[rng.below(len(MAINT_OPS))]))
    # immediate mode promises that a plain process exit + restart reproduces the state; batched and
    # async modes promise it for a graceful shutdown (save_all) only
    final = {"op": "restart"} if b["cfg"]["durability"] == "immediate" else {"op": "shutdown_restart"}
    a["ops"] = base["ops"] + [dict(final)]
    b["ops"] = ops_b + [dict(final)]
    return a, b, list(range(len(base["ops"]))), pos_b


def c14_compare(a, b, oa, ob, pos_a, pos_b):
    """Returns None or (oracle, detail)."""
    for o in (oa, ob):
        if o.get("status") != "ok":
            return None  # reported through the ordinary oracles / harness path
    ha = {(st, ph): h for st, ph, h in oa.get("step_hashes", [])}
    hb = {(st, ph): h for st, ph, h in ob.get("step_hashes", [])}
    for j, (pa, pb) in enumerate(zip(pos_a, pos_b)):
        if a["ops"][pa].get("op") == "probe":
            continue
        if ha.get((pa, 0)) != hb.get((pb, 0)):
            return ("maintenance_changes_live_state", f"after base op #{j} {json.dumps(a['ops'][pa])[:200]}: plain run and maintained run serve different contents")
    ra = ha.get((len(a["ops"]) - 1, 2))
    rb = hb.get((len(b["ops"]) - 1, 2))
    if ra != rb:
        return ("maintenance_changes_recovered_state", f"after the final restart: plain {json.dumps(oa.get('final_obs'))[:400]} maintained {json.dumps(ob.get('final_obs'))[:400]}")
    return None


def check_c14(tier, seed):
    oracles = ["maintenance_changes_live_state", "maintenance_changes_recovered_state", "live_differs_from_model_facts", "report_mismatch",
               "query_differs_from_snapshot", "query_failed", "op_result_class", "not_a_set", "observe_failed", "reopen_failed", "op_failed",
               "restart_differs_facts"]
    acc = Acc("C14", tier, seed, oracles, "exploration")
    n = 1500 if tier == "quick" else 15000
    bases = gen("c14", seed, 0, n)
    pairs = []
    cases = []
    for base in bases:
        rng = PRng(base["seed"] ^ 0x14)
        a, b, pa, pb = c14_make_twin(base, rng)
        pairs.append((a, b, pa, pb))
        cases += [a, b]
    outs = execute(cases)
    determinism_spot_check(cases, outs)
    modes = collections.Counter()
    maint = collections.Counter()
    for i, (a, b, pa, pb) in enumerate(pairs):
        oa, ob = outs[2 * i], outs[2 * i + 1]
        modes[b["cfg"]["durability"]] += 1
        for op in b["ops"]:
            if op["op"] in ("save_all", "compact_all", "save_kg", "compact_if_needed"):
                maint[op["op"]] += 1
        diff = c14_compare(a, b, oa, ob, pa, pb)
        if diff and not ob.get("failure"):
            ob = dict(ob)
            ob["status"] = "fail"
            ob["failure"] = {"oracle": diff[0], "step": -1, "detail": diff[1]}
            b = dict(b)
            b["twin"] = a
        # failures of the plain run A are not maintenance effects; they are foreign here
        if oa.get("failure"):
            acc.foreign["plain_run:" + oa["failure"]["oracle"]] += 1
            oa = dict(oa)
            oa["failure"] = None
            oa["status"] = "ok"
        acc.add(a, oa, False)
        acc.add(b, ob, any(op["op"] in ("save_all", "compact_all", "save_kg", "compact_if_needed") for op in b["ops"]) and has_kind(b, ("insert", "delete")))
    acc.extra["durability_modes"] = dict(modes)
    acc.extra["maintenance_ops_woven_in"] = dict(maint)
    rule = ("twin runs: a seeded base history of 3-10 writes/probes is run (A) with buffer_size=10000, no WAL limit, immediate mode and no maintenance, and (B) with "
            "buffer_size in {1,2,3}, max_wal in {0,300,2000}, durability in {immediate,batched,async} and save_all/save_kg/compact_all/compact_if_needed woven in "
            "at seeded positions; both end with a graceful shutdown + restart; oracle: after every base operation the served contents of B = A (= set model), "
            "write reports equal, pipeline queries = snapshot, and the recovered state of B = A; non-trivial = B contains a maintenance operation and a write")
    return finish(acc, rule, ASSUME_COMMON + ["faults off", "restart comparison is differential (B vs A); a history on which A itself disagrees with the model after restart is counted as foreign (plain_run:*)"],
                  minimiser=lambda case, oracle: case)


# ------------------------------------------------------------------------------------- schedule checks (conc)

def conc_nontrivial(case, out):
    writes = sum(1 for t in case.get("threads", []) for op in t if op["op"] in ("insert", "delete", "p_append", "drop_kg", "create_kg", "register_rule", "drop_rule"))
    return writes >= 1 and len(case.get("threads", [])) >= 2 and out.get("sched_steps", 0) > 0


class ConcAcc(Acc):
    def __init__(self, *a, **k):
        super().__init__(*a, **k)
        self.schedules = set()
        self.preempt = collections.Counter()
        self.deadlocks = 0
        self.lin = 0
        self.strategies = collections.Counter()

    def add_conc(self, case, out):
        self.add(case, out, conc_nontrivial(case, out))
        if out.get("status") in ("ok", "fail"):
            self.schedules.add((out.get("site_hash"), tuple(out.get("sched_choices", []))))
            self.preempt[min(out.get("preemptions", 0), 20)] += 1
            self.lin += out.get("linearizations_tried", 0)
            s = case.get("sched")
            self.strategies[next(iter(s)) if isinstance(s, dict) else str(s)] += 1
            if out.get("deadlock"):
                self.deadlocks += 1

    def conc_extra(self):
        self.extra["distinct_schedules"] = len(self.schedules)
        self.extra["preemptions_histogram"] = {str(k): v for k, v in sorted(self.preempt.items())}
        self.extra["deadlocks"] = self.deadlocks
        self.extra["linearization_orders_examined"] = self.lin
        self.extra["schedule_strategies"] = dict(self.strategies)


def conc_batch(acc, families, seed, crash_share_num=1, crash_share_den=2, interesting=("wal", "batch", "shard-meta", "unlink", "rename")):
    """families: list of (family, n). Stage 1 runs every case without a crash (recording the
    file-system event list under that exact schedule); stage 2 re-runs a share of them with a crash
    at a sampled event of the concurrent phase."""
    cases = []
    for fam, n in families:
        cases += gen(fam, seed, 0, n)
    dry = []
    for c in cases:
        d = copy.deepcopy(c)
        d["want_trace"] = True
        dry.append(d)
    t = time.time()
    outs = execute(dry, timeout_s=120)
    log(f"[{acc.prop}] {len(dry)} schedule runs in {time.time() - t:.1f}s")
    determinism_spot_check(dry, outs, k=12)
    crash_cases = []
    for c, o in zip(cases, outs):
        slim = {k: v for k, v in o.items() if k != "trace"}
        acc.add_conc(c, slim)
        if o.get("status") != "ok" or crash_share_num == 0:
            continue
        rng = PRng(c["seed"] ^ 0xDEAD)
        if not rng.chance(crash_share_num, crash_share_den):
            continue
        base = None
        tr = o.get("trace", [])
        m = o.get("events", 0)
        if m <= 0 or not tr:
            continue
        # ordinals in the trace are absolute; the crash plan is relative to the start of the concurrent phase
        first = tr[-1][0] + 1 - m if tr else 0
        conc_tr = [e for e in tr if e[0] >= first]
        pts = crash_points(conc_tr, interesting)
        for (ordn, cls, _w) in weighted_sample(rng, pts, 2):
            cc = copy.deepcopy(c)
            # same strategy + same sched_seed = same interleaving up to the crash point
            cc["crash"] = {"at": ordn - first, "inflight_write": rng.chance(1, 2), "image": {"draw": rng.next()}, "second": None}
            crash_cases.append(cc)
    if crash_cases:
        t = time.time()
        couts = execute(crash_cases, timeout_s=120)
        log(f"[{acc.prop}] {len(crash_cases)} schedule+crash runs in {time.time() - t:.1f}s")
        for c, o in zip(crash_cases, couts):
            acc.add_conc(c, o)


def minimise_conc(case, oracle, budget_s=120):
    """Shrink a failing concurrent case: drop operations per thread while the oracle keeps firing.
    The schedule strategy is seeded, so a shrunk case is re-explored under the same strategy."""
    t0 = time.time()
    case = copy.deepcopy(case)
    changed = True
    while changed and time.time() - t0 < budget_s:
        changed = False
        cands = []
        for ti, ops in enumerate(case["threads"]):
            for oi in range(len(ops)):
                c = copy.deepcopy(case)
                del c["threads"][ti][oi]
                if case.get("crash") is None or True:
                    cands.append(c)
        for si in range(len(case.get("setup", []))):
            c = copy.deepcopy(case)
            del c["setup"][si]
            cands.append(c)
        if not cands:
            break
        res = vlib._batch_fails(cands, oracle)
        for c, ok in zip(cands, res):
            if ok:
                case = c
                changed = True
                break
    case["threads"] = [t for t in case["threads"]]
    return case


CONC_ASSUME = ASSUME_COMMON + [
    "sequentially consistent interleavings at lock / DashMap / file-system-call granularity; races between plain atomics and inside dependencies are not explored",
    "parking_lot writer preference and DashMap sharding are not modelled (single-lock map shim)",
    "histories are bounded: 2-3 threads x 1-4 operations, checked by exhaustive linearization search",
]


def check_c15(tier, seed):
    oracles = ["not_linearizable", "recovered_not_linearizable", "deadlock", "not_a_set", "reopen_failed_after_crash", "observe_failed", "open_failed",
               "acked_update_lost", "stale_update_resurfaced", "phantom_update", "reopened:acked_update_lost", "reopened:stale_update_resurfaced", "reopened:phantom_update",
               "recovered:acked_update_lost", "recovered:stale_update_resurfaced", "recovered:phantom_update", "recovered2:acked_update_lost",
               "recovered2:stale_update_resurfaced", "recovered2:phantom_update", "reopen_failed", "post:reopen_failed", "post:restart_differs_facts", "post:restart_differs_rules",
               "post:restart_differs_schemas", "post:op_failed"]
    acc = ConcAcc("C15", tier, seed, oracles, "exploration")
    n = 800 if tier == "quick" else 9000
    conc_batch(acc, [("c15p", n), ("c15e", n)], seed)
    acc.conc_extra()
    rule = ("level 1: 2-3 simulated threads x 1-3 operations {append (unique tuples, +1/-1), flush, compact} on 1-2 shards of the real FilePersist, buffer_size in {1,2,3,10000}; "
            "level 2: 2-3 threads x 1-3 operations {insert/delete on overlapping tuples, multi-tuple batches, save_all, compact_all, read} on the real StorageEngine; "
            "every run under a seeded schedule (random walk p in {5,20,50}%, PCT d=1-3, hold-one-thread-at-a-site, serial) over lock/DashMap/file-system switch points; "
            "half of the clean runs are repeated under the recorded schedule with a crash at a sampled file-system event of the concurrent phase and a drawn crash image; "
            "oracles: exhaustive linearization search against the set model (reports + final state), no acknowledged update lost or resurfacing after reopen / crash recovery, "
            "no deadlock; non-trivial = >=2 threads, >=1 write, >=1 scheduling decision; distinct = distinct (case, schedule)")
    return finish(acc, rule, CONC_ASSUME, minimiser=minimise_conc)


def check_c19(tier, seed):
    oracles = ["not_linearizable", "deadlock", "not_a_set", "observe_failed", "open_failed", "panic", "harness", "post:restart_differs_facts", "post:reopen_failed"]
    acc = ConcAcc("C19", tier, seed, oracles, "exploration")
    n = 700 if tier == "quick" else 8000
    conc_batch(acc, [("c19b", n)], seed, crash_share_num=0)
    acc.conc_extra()
    # history half: sequential histories with incremental maintenance switched on at a seeded step and consistent reads compared with the model
    hcases = gen("c18", seed + 1000, 0, 300 if tier == "quick" else 3000)
    # dedicated mirror histories: tiny tuple domain, every write path (engine batches with in-batch repeats, delete requests naming a tuple
    # several times, handler statements, conditional deletes, updates, large batches), a consistent read after every write
    hcases += gen("c19a", seed, 0, 1200 if tier == "quick" else 15000)
    # worker-batching family at the IncrementalEngine API: command batches built on purpose behind the parked worker
    hcases += gen("c19w", seed, 0, 400 if tier == "quick" else 4000)
    houts = execute(hcases, timeout_s=300)
    acc.violation_oracles |= {"incremental_read_differs_from_relation", "incremental_read_failed", "persistent_facts_differ_from_model", "report_mismatch", "reopen_failed"}
    reads = 0
    for c, o in zip(hcases, houts):
        if "batches" in c:
            acc.add(c, o, o.get("reads_checked", 0) >= 2)
            reads += o.get("reads_checked", 0)
            continue
        acc.add(c, o, hop_kinds(c).get("incr_read", 0) >= 1)
        reads += o.get("queries_checked", 0)
    acc.extra["history_half"] = {"runs": len(hcases), "probes_checked": reads}
    rule = ("incremental maintenance enabled (real IncrementalEngine worker thread + differential dataflow); one reader thread issuing consistent reads of the base relation "
            "from the incremental engine while 1-2 writers insert/delete (overlapping tuples, duplicates, absent deletes, multi-tuple batches) through the StorageEngine; seeded "
            "schedules as for C15; oracle: exhaustive linearization search - every consistent read equals the relation after some prefix between its invocation and return, no "
            "'worker disconnected' error, final arrangement = final relation; non-trivial = >=2 threads, >=1 write, >=1 scheduling decision")
    rule += ("; history half: sequential histories over a 2-3 tuple domain through every write path (engine batches with in-batch repeats, delete requests naming a tuple several times "
             "or absent tuples, handler statements, bulk and conditional deletes, updates, large batches, restarts) with incremental maintenance switched on at a seeded step and a consistent "
             "read of both relations after every write; oracle: arrangement = relation = set model, write reports = model; worker-batching family (c19w, at the IncrementalEngine "
             "API): the free-running worker is parked inside a GetIndexStats command, a seeded sequence of inserts / deletes / advances and 1-2 consistent readers is queued, the "
             "worker drains it as one batch; each reader must return the relation after some prefix of the batch containing everything queued before it, a read after the batch = model")
    return finish(acc, rule, CONC_ASSUME + ["the incremental worker is a free-running real thread, only ever waited on synchronously (request/response)"],
                  minimiser=lambda case, oracle: minimise_conc(case, oracle) if "threads" in case else (minimise_batches(case, oracle) if "batches" in case else minimise_hsc(case, oracle)))


def check_c20(tier, seed):
    oracles = ["not_linearizable", "deadlock", "not_a_set", "observe_failed", "open_failed", "post:restart_differs_facts", "post:restart_differs_rules", "post:reopen_failed"]
    acc = ConcAcc("C20", tier, seed, oracles, "exploration")
    n = 1800 if tier == "quick" else 18000
    nh = 1200 if tier == "quick" else 12000
    conc_batch(acc, [("c20", n), ("c20h", nh), ("c20hw", nh // 3)], seed, crash_share_num=0)
    acc.conc_extra()
    rule = ("1-2 writers issuing multi-tuple inserts (2-3 fresh tuples each), deletes, register/drop of a copy rule, and 1-2 readers reading the whole relation through the "
            "snapshot path and through the full query pipeline with persistent rules; writers read their own relation after writing; seeded schedules as for C15; "
            "oracle: exhaustive linearization search - every read equals the model after some prefix respecting real-time order (so a batch is visible entirely or not at all "
            "and own acknowledged writes are visible), reports and final state explained; non-trivial = >=2 threads, >=1 write, >=1 scheduling decision; "
            "Handler level (family c20h): the same threads send whole requests through the real Handler (QueryJob::execute) - bulk insert, bulk delete, conditional delete, "
            "update, rule registration, queries; every statement is one operation for the linearization search, conditional statements race with readers and with writers of "
            "tuples their condition cannot match; family c20hw: conditional statements race with writers of the tuples they match (open known finding: check-then-act)")
    return finish(acc, rule, CONC_ASSUME + ["Handler-level requests enter through hook H1 (Handler::verif_execute_sync -> QueryJob::execute), not through tokio"], minimiser=minimise_conc)


# ------------------------------------------------------------------------------------- Handler-level scenarios (hsc)

class HAcc(Acc):
    def __init__(self, *a, **k):
        super().__init__(*a, **k)
        self.queries = 0
        self.sessions = 0
        self.reaped = 0
        self.sim_seconds = 0
        self.rejected = 0

    def add_h(self, case, out, nontrivial):
        self.add(case, out, nontrivial)
        self.queries += out.get("queries_checked", 0)
        self.sessions += out.get("sessions_created", 0)
        self.reaped += out.get("sessions_reaped", 0)
        self.sim_seconds += out.get("sim_seconds", 0)
        self.rejected += out.get("rejected_inserts", 0)

    def h_extra(self):
        self.extra.update({"query_answers_checked_against_fresh_evaluation": self.queries, "sessions_created": self.sessions,
                           "sessions_reaped_by_simulated_clock": self.reaped, "simulated_seconds": self.sim_seconds, "inserts_rejected_by_schema": self.rejected})


def minimise_hsc(case, oracle, budget_s=150):
    t0 = time.time()
    case = copy.deepcopy(case)
    case = vlib.ddmin_list(case, "ops", oracle, budget_s, t0)
    return case


def minimise_batches(case, oracle, budget_s=60):
    """c19w cases: drop whole batches, then single operations, while the same oracle fires."""
    t0 = time.time()
    case = copy.deepcopy(case)
    changed = True
    while changed and time.time() - t0 < budget_s:
        changed = False
        cands = []
        for bi in range(len(case["batches"])):
            if len(case["batches"]) > 1:
                c = copy.deepcopy(case)
                del c["batches"][bi]
                cands.append(c)
            for oi in range(len(case["batches"][bi])):
                c = copy.deepcopy(case)
                del c["batches"][bi][oi]
                cands.append(c)
        if not cands:
            break
        res = vlib._batch_fails(cands, oracle)
        for c, ok in zip(cands, res):
            if ok:
                case = c
                changed = True
                break
    return case


def hop_kinds(case):
    return collections.Counter(op.get("op") for op in case.get("ops", []))


def check_c32(tier, seed):
    oracles = ["report_mismatch", "persistent_facts_differ_from_model", "not_a_set", "stateless_query_differs_from_fresh_evaluation", "reopen_failed",
               "observe_failed", "open_failed", "insert_rejected_without_schema", "persistent_rules_differ_from_model"]
    acc = HAcc("C32", tier, seed, oracles, "exploration")
    n = 2000 if tier == "quick" else 24000
    cases = gen("c32", seed, 0, n)
    outs = execute(cases, timeout_s=240)
    determinism_spot_check(cases, outs, k=10)
    kinds = collections.Counter()
    for c, o in zip(cases, outs):
        eff = collections.Counter((op.get("effect") or {}).get("e") for op in c["ops"] if op.get("op") == "program")
        kinds.update(eff)
        acc.add_h(c, o, sum(eff.values()) >= 2)
    acc.h_extra()
    acc.extra["statement_kinds"] = dict(kinds)
    rule = ("seeded programs through the real Handler request path (QueryJob::execute; a quarter of the runs through the async execute_program on a current-thread runtime): "
            "bulk inserts with in-batch and stored duplicates, single deletes incl. absent tuples, conditional deletes and updates with comparison conditions the model evaluates "
            "natively (incl. updates whose inserted tuples collide with tuples they delete), flushes, compactions and clean restarts; oracle: every reported count (Inserted n / Deleted n / "
            "Conditional delete: n / Update: d deleted) = set model, stored relations duplicate-free and equal to the model after every statement and restart; "
            "non-trivial = at least two state-changing statements")
    return finish(acc, rule, ASSUME_COMMON + ["faults off", "integer tuples of arity 2; conditions over one column"], minimiser=minimise_hsc)


def check_c33(tier, seed):
    oracles = ["schema_violation_accepted", "conforming_insert_rejected", "insert_rejected_without_schema", "persistent_facts_differ_from_model", "not_a_set",
               "reopen_failed", "observe_failed", "open_failed", "stateless_query_differs_from_fresh_evaluation"]
    acc = HAcc("C33", tier, seed, oracles, "exploration")
    n = 2500 if tier == "quick" else 30000
    cases = gen("c33", seed, 0, n)
    outs = execute(cases, timeout_s=240)
    determinism_spot_check(cases, outs, k=10)
    for c, o in zip(cases, outs):
        eff = collections.Counter((op.get("effect") or {}).get("e") for op in c["ops"] if op.get("op") == "program")
        acc.add_h(c, o, eff.get("schema", 0) >= 1 and eff.get("insert", 0) >= 1)
    acc.h_extra()
    rule = ("seeded histories of persistent schema declarations (int/string/float/bool columns, re-declarations), request-local schema declarations by another client for the same "
            "relation, conforming / one-bad-tuple / all-bad batches on the persistent path and the session-insert path, flushes and clean restarts (schema catalog reloaded); "
            "oracle: a batch with a tuple that certainly violates the declared persistent schema stores nothing, a batch that certainly conforms is accepted, a relation without "
            "a declared schema accepts every batch, stored contents = model after every step; non-trivial = history has a persistent schema and an insert")
    return finish(acc, rule, ASSUME_COMMON + ["faults off", "conformance judged only in unambiguous cases (int vs string vs float vs bool, arity)"], minimiser=minimise_hsc)


def check_c10(tier, seed):
    oracles = ["session_query_differs_from_fresh_evaluation", "stateless_query_differs_from_fresh_evaluation", "request_local_query_differs_from_fresh_evaluation",
               "persistent_facts_differ_from_model", "persistent_rules_differ_from_model", "session_report_mismatch", "not_a_set", "observe_failed", "open_failed",
               "insert_rejected_without_schema", "conforming_insert_rejected"]
    acc = HAcc("C10", tier, seed, oracles, "exploration")
    n = 1800 if tier == "quick" else 18000
    cases = gen("c10", seed, 0, n)
    outs = execute(cases, timeout_s=300)
    determinism_spot_check(cases, outs, k=8)
    for c, o in zip(cases, outs):
        k = hop_kinds(c)
        acc.add_h(c, o, k.get("sess_query", 0) >= 1 and (k.get("sess_insert", 0) + k.get("sess_add_rule", 0)) >= 1)
    acc.h_extra()
    rule = ("request-granularity interleavings through the real Handler + SessionManager: 2-3 WebSocket-style sessions (create, ephemeral insert/retract, session rules, .session clear, "
            "persistent writes over the session, queries), a stateless client with request-local facts and rules, a persistent writer, the idle reaper on the simulated clock "
            "(idle timeout 30 s / 120 s / 1 h, clock advanced by 10 s - 4000 s); every session owns a disjoint value range; oracle after every step: persistent facts/rules = model, "
            "every answer = fresh evaluation on a pristine engine loaded with persistent data + the asking session's own facts and rules; "
            "non-trivial = a session with ephemeral state issued a query")
    return finish(acc, rule, ASSUME_COMMON + ["faults off", "fine-grained (lock-level) interleavings of session operations are explored by the conc half"], minimiser=minimise_hsc)


def check_c18(tier, seed):
    oracles = ["stateless_query_differs_from_fresh_evaluation", "request_local_query_differs_from_fresh_evaluation", "persistent_facts_differ_from_model",
               "persistent_rules_differ_from_model", "not_a_set", "observe_failed", "open_failed", "panic"]
    acc = HAcc("C18", tier, seed, oracles, "exploration")
    n = 1800 if tier == "quick" else 18000
    cases = gen("c18", seed, 0, n)
    outs = execute(cases, timeout_s=300)
    determinism_spot_check(cases, outs, k=8)
    for c, o in zip(cases, outs):
        k = hop_kinds(c)
        eff = collections.Counter((op.get("effect") or {}).get("e") for op in c["ops"] if op.get("op") == "program")
        acc.add_h(c, o, k.get("enable_incremental", 0) >= 1 and eff.get("rule", 0) >= 1 and k.get("query", 0) >= 1)
    acc.h_extra()
    rule = ("seeded histories of 5-14 steps through the real Handler: base inserts/deletes, registration of persistent rules over base relations and over other derived "
            "relations (chains of depth 1-3, negation, one recursive closure, one count aggregate), duplicate clauses, .rule drop / .rule remove / .rule clear, with incremental "
            "maintenance (real IncrementalEngine worker + differential dataflow) switched on at a seeded step; after most steps 1-2 probe queries over the persistent rules; "
            "oracle: every answer = fresh evaluation of the current rules over the current facts on a pristine engine (same worker count), persistent state = model; "
            "non-trivial = incremental maintenance enabled, at least one rule registered and one probe")
    return finish(acc, rule, ASSUME_COMMON + ["faults off", "incremental maintenance is enabled through KnowledgeGraph::enable_incremental (what index creation calls)"], minimiser=minimise_hsc)


def check_c04(tier, seed):
    oracles = ["stateless_query_differs_from_fresh_evaluation", "request_local_query_differs_from_fresh_evaluation", "persistent_facts_differ_from_model",
               "persistent_rules_differ_from_model", "not_a_set", "observe_failed", "open_failed", "panic", "reopen_failed"]
    acc = HAcc("C04", tier, seed, oracles, "exploration")
    n = 900 if tier == "quick" else 9000
    cases = gen("c04", seed, 0, n)
    outs = execute(cases, timeout_s=300)
    determinism_spot_check(cases, outs, k=8)
    for c, o in zip(cases, outs):
        k = hop_kinds(c)
        acc.add_h(c, o, k.get("query", 0) + k.get("request_local", 0) >= 2)
    acc.h_extra()
    rule = ("simulation-relevant part of the property: per run a seeded entropy stream fixes the iteration order of every HashMap (rule catalog, relation maps) and a seeded "
            "history registers persistent rules in a seeded order, runs other probe programs first (incl. bound-argument recursive queries and aggregates), restarts (new hash "
            "keys, catalog reloaded) and sends inline programs whose clauses are permuted and partly repeated; oracle: every answer = fresh evaluation on a pristine engine that "
            "received the rules in canonical (sorted, de-duplicated) order; stored base facts = model after every query (queries never change base facts); "
            "non-trivial = at least two probes on the same engine")
    return finish(acc, rule, ASSUME_COMMON + ["faults off", "clause permutation/duplication of inline programs is workload, not a scheduler dimension"], minimiser=minimise_hsc)


# ------------------------------------------------------------------------------------- vector scenarios

C24_ORACLES = ["more_than_k_results", "duplicate_id_in_results", "dead_id_in_results", "distance_not_exact", "results_not_sorted",
               "too_few_results_in_exact_regime", "not_true_nearest_in_exact_regime", "panic"]
C25_ORACLES = ["insert_acceptance_differs", "tombstones_after_rebuild", "save_load_changes_index", "index_save_failed", "index_load_failed", "config_changed",
               "dimension_differs", "tombstone_count_exceeds_deletes", "live_vector_missing", "stored_count_differs", "final_id_set_differs", "final_vector_differs", "rebuild_failed", "panic"]


def vec_check(prop, oracles, tier, seed, rule, entropy_seeds):
    acc = Acc(prop, tier, seed, oracles, "exploration")
    n_hist = (300 if tier == "quick" else 3000)
    hist = gen("vec", seed, 0, n_hist)
    cases = []
    for h in hist:
        for e in range(entropy_seeds):
            c = copy.deepcopy(h)
            c["seed"] = h["seed"] * 131 + e  # same history, another entropy stream (hnsw_rs level draws, hash orders)
            cases.append(c)
    outs = execute(cases, timeout_s=240)
    determinism_spot_check(cases, outs, k=10)
    searches = exact = saves = 0
    metrics = collections.Counter()
    for c, o in zip(cases, outs):
        kinds = collections.Counter(op["op"] for op in c["ops"])
        acc.add(c, o, kinds.get("search", 0) >= 1 and (kinds.get("insert", 0) + kinds.get("insert_batch", 0)) >= 1)
        searches += o.get("searches", 0)
        exact += o.get("exact_regime_searches", 0)
        saves += o.get("save_loads", 0)
        metrics[c["metric"]] += 1
    acc.extra.update({"histories": len(hist), "entropy_seeds_per_history": entropy_seeds, "searches_checked": searches,
                      "searches_in_exact_regime": exact, "save_load_cycles": saves, "metrics": dict(metrics)})
    return finish(acc, rule, ASSUME_COMMON + ["faults off; save/load through the real file system", "tolerance 2e-3 relative on distances (f32 arithmetic inside the index)",
                                              "the dot-product metric is taken as the index defines it: negated cosine of the normalised vectors"],
                  minimiser=lambda case, oracle: vlib.ddmin_list(copy.deepcopy(case), "ops", oracle, 120, time.time()))


def check_c24(tier, seed):
    rule = ("seeded data histories (dimension 1-8, up to ~60 vectors incl. exact duplicates and near-zero norms, all four metrics, m/ef_construction/ef_search knobs) of insert / "
            "insert_batch / update of an existing id / delete (crossing the 30 % auto-compaction) / rebuild / save+load and searches with k in {1,3,10,100}, ef in {default,1,k,50,200}; "
            "each history is replayed under 8 entropy seeds (hnsw_rs draws its levels from the interposed getrandom); oracle (brute force over the model id -> latest vector): at "
            "most k results, ids distinct and live, distances non-decreasing and equal to the exact metric distance, and when live <= ef exactly min(k, live) results whose "
            "distances are the true k nearest; non-trivial = history has an insert and a search; distinct = distinct (history, entropy seed)")
    return vec_check("C24", C24_ORACLES, tier, seed, rule, 8)


def check_c25(tier, seed):
    rule = ("same histories as C24 (insert, update of an existing id, delete incl. unknown ids and re-insert of a deleted id, rebuild, repeated HnswIndex::save/load cycles "
            "through the real file system) under 4 entropy seeds; oracle after every step and every load: configuration and metric unchanged, dimension = model, tombstone count "
            "<= deletes since the last rebuild and 0 after a rebuild, no live vector missing, save->load preserves (len, tombstones, dimension, metric, config); at the end an "
            "exhaustive search returns exactly the live ids and each id is at distance 0 from its latest vector; non-trivial = history has an insert and a search")
    return vec_check("C25", C25_ORACLES, tier, seed, rule, 4)


def check_c26(tier, seed):
    oracles = ["lsh_bucket_depends_on_cache_state", "deadlock", "panic", "law_symmetry", "law_non_negative", "law_identity", "law_cosine_range",
               "law_quantize_roundtrip", "law_probes_start", "law_probes_distinct", "law_probes_hamming_order"]
    acc = ConcAcc("C26", tier, seed, oracles, "exploration")
    n = 4000 if tier == "quick" else 60000
    cases = gen("lsh", seed, 0, n)
    outs = execute(cases, timeout_s=120)
    determinism_spot_check(cases, outs, k=10)
    buckets = laws = ev = 0
    for c, o in zip(cases, outs):
        acc.add(c, o, len(c.get("threads", [])) >= 2 and o.get("buckets_checked", 0) >= 1)
        if o.get("status") in ("ok", "fail"):
            acc.schedules.add((o.get("site_hash"), tuple(o.get("sched_choices", []))))
            acc.preempt[min(o.get("preemptions", 0), 20)] += 1
        buckets += o.get("buckets_checked", 0)
        laws += o.get("law_checks", 0)
        ev += o.get("evictions", 0)
    acc.conc_extra()
    acc.extra.update({"buckets_checked_against_pristine_cache": buckets, "cache_evictions_fired": ev, "incidental_pure_law_checks": laws})
    rule = ("cache clause, decided by simulation: 2-3 simulated threads call lsh_bucket / lsh_buckets / lsh_bucket_with_distances / prewarm / clear / configure_size(0..3) on the "
            "process-wide hyperplane cache (fresh per forked run; vectors of different dimensions share (table, hyperplane count) pairs so that eviction and re-creation run "
            "constantly) under seeded schedules over the cache's lock; oracle: every bucket = the value computed on an empty cache for the same arguments; the pure clauses "
            "(metric symmetry / non-negativity / identity, cosine range, quantise round-trip, probe sequence laws) are evaluated on the vectors that flow through the runs - "
            "incidental, not the deciding search; non-trivial = >=2 threads and >=1 bucket computed")
    return finish(acc, rule, CONC_ASSUME, minimiser=lambda case, oracle: case)


CHECKS = {
    "C04": check_c04,
    "C10": check_c10,
    "C11": check_c11,
    "C12": check_c12,
    "C13": check_c13,
    "C14": check_c14,
    "C15": check_c15,
    "C18": check_c18,
    "C19": check_c19,
    "C20": check_c20,
    "C24": check_c24,
    "C25": check_c25,
    "C26": check_c26,
    "C32": check_c32,
    "C33": check_c33,
    "C16": check_c16,
    "C17": check_c17,
}


def replay(path):
    """Re-run a replay file in a fresh process; exit 1 (with the VIOLATION line) iff it fails the same way."""
    doc = json.load(open(path))
    vlib.build()
    case = doc["case"]
    expected = doc.get("expected_oracle")
    if "twin" in case:
        a = case["twin"]
        b = {k: v for k, v in case.items() if k != "twin"}
        oa, ob = execute([a, b], jobs=2)
        base_ops = [op for op in a["ops"][:-1]]
        pos_a = list(range(len(base_ops)))
        pos_b, j = [], 0
        for i, op in enumerate(b["ops"][:-1]):
            if j < len(base_ops) and op == base_ops[j]:
                pos_b.append(i)
                j += 1
        diff = c14_compare(a, b, oa, ob, pos_a, pos_b) if len(pos_b) == len(pos_a) else None
        got = oracle_of(ob) or (diff[0] if diff else None)
        detail = (ob.get("failure") or {}).get("detail") or (diff[1] if diff else None)
        out = ob
    else:
        out = execute([case], jobs=1)[0]
        got = oracle_of(out)
        detail = (out.get("failure") or {}).get("detail")
    print(json.dumps({"expected_oracle": expected, "got_oracle": got, "detail": detail, "status": out.get("status")}, indent=1))
    if got is not None and got == expected:
        print(f"VIOLATION property={doc['property']} replay={path}")
        return 1
    if got is None and out.get("status") == "ok":
        print("replay did not reproduce the failure (the property holds on this tree for this case)")
        return 0
    print("replay produced a different result than recorded")
    return 2


# ------------------------------------------------------------------------------------- selftests

def selftest(which, seed):
    vlib.build()
    if which == "determinism":
        fams = [("c11", 200), ("c12", 200), ("c13", 100), ("c16", 100), ("c17", 150), ("c14", 100), ("c15p", 150), ("c15e", 150), ("c20", 150),
                ("c17b", 150), ("c19b", 100), ("c32", 100), ("c33", 100), ("c10", 100), ("c18", 100), ("c04", 100), ("vec", 150), ("lsh", 200),
                ("c19a", 150), ("c19w", 60), ("c20h", 150), ("c20hw", 100)]
        bad = 0
        total = 0
        for fam, n in fams:
            cases = gen(fam, seed, 0, n)
            a = execute(cases, jobs=16)
            b = execute(cases, jobs=5)
            for i, (x, y) in enumerate(zip(a, b)):
                total += 1
                if x.get("log_hash") != y.get("log_hash") or oracle_of(x) != oracle_of(y):
                    bad += 1
                    log(f"nondeterministic: family={fam} index={i} seed={cases[i].get('seed')}")
        print(f"determinism: {total} cases run twice (16 and 5 workers), {bad} mismatches")
        return 0 if bad == 0 else 2
    print("unknown selftest")
    return 2
