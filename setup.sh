#!/bin/sh
# MANIFEST.setup_cmd: offline build of the simulator from /repo's current working tree.
set -e
cd "$(dirname "$0")"
export CARGO_NET_OFFLINE=true
python3 tools/gen_shadow.py
[ -f sim/simbin/Cargo.lock ] || cp "${REPO_DIR:-/repo}/Cargo.lock" sim/simbin/Cargo.lock
cd sim/simbin
cargo build --offline 2>&1 | tail -3
test -x /verif/target/debug/sim
