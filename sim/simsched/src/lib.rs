//! simsched: a baton scheduler. Simulated threads are real OS threads; exactly one holds the
//! baton. At every switch point (shim lock acquire/release, DashMap operation, interposed
//! file-system mutation) the seeded strategy decides who runs next. See DESIGN.md §5.

use std::cell::Cell;
use std::sync::atomic::{AtomicBool, Ordering};
use std::sync::{Condvar, Mutex};

thread_local! {
    static SIM_TID: Cell<usize> = const { Cell::new(usize::MAX) };
}

static ACTIVE: AtomicBool = AtomicBool::new(false);
static STATE: Mutex<Option<State>> = Mutex::new(None);
static CV: Condvar = Condvar::new();

#[derive(Clone, Debug)]
pub enum Strategy {
    /// at each switch point, switch to a random other runnable thread with probability num/256
    RandomWalk { p_num: u32 },
    /// PCT-style: random priorities, `change_points` global step indices at which the running
    /// thread's priority drops below everyone's
    Pct { change_points: Vec<u64> },
    /// hold thread `tid` at its `nth` own switch point until nobody else can run
    Hold { tid: usize, nth: u64 },
    /// follow a recorded choice list exactly
    Replay(Vec<u8>),
    /// no preemption: run each thread to completion/blocking in index order
    Serial,
}

#[derive(Clone, Copy, PartialEq, Eq, Debug)]
enum Ts {
    NotStarted,
    Runnable,
    Blocked(usize),
    Finished,
}

struct Th {
    st: Ts,
    prio: i64,
    own_steps: u64,
    held: bool,
}

struct State {
    threads: Vec<Th>,
    current: usize,
    rng: u64,
    strategy: Strategy,
    steps: u64,
    choices: Vec<u8>,
    replay_pos: usize,
    site_hash: u64,
    preemptions: u64,
    deadlock: Option<String>,
    diverged: Option<String>,
    max_steps: u64,
    low_prio: i64,
    sites: Vec<(u8, u32)>,
}

fn rnd(s: &mut u64) -> u64 {
    *s = s.wrapping_add(0x9E3779B97F4A7C15);
    let mut z = *s;
    z = (z ^ (z >> 30)).wrapping_mul(0xBF58476D1CE4E5B9);
    z = (z ^ (z >> 27)).wrapping_mul(0x94D049BB133111EB);
    z ^ (z >> 31)
}

fn fnv(h: &mut u64, b: &[u8]) {
    for x in b {
        *h ^= *x as u64;
        *h = h.wrapping_mul(0x100000001b3);
    }
}

pub fn site_id(s: &str) -> u32 {
    let mut h = 0xcbf29ce484222325u64;
    fnv(&mut h, s.as_bytes());
    (h ^ (h >> 32)) as u32
}

#[derive(Clone, Debug, Default)]
pub struct RunResult {
    pub choices: Vec<u8>,
    pub steps: u64,
    pub site_hash: u64,
    pub preemptions: u64,
    pub deadlock: Option<String>,
    pub diverged: Option<String>,
    pub panics: Vec<(usize, String)>,
    pub sites: Vec<(u8, u32)>,
}

#[inline]
pub fn active() -> bool {
    ACTIVE.load(Ordering::Relaxed)
}
#[inline]
pub fn current_tid() -> Option<usize> {
    if !active() {
        return None;
    }
    let t = SIM_TID.try_with(Cell::get).unwrap_or(usize::MAX);
    if t == usize::MAX {
        None
    } else {
        Some(t)
    }
}

impl State {
    fn runnable(&self) -> Vec<usize> {
        self.threads
            .iter()
            .enumerate()
            .filter(|(_, t)| matches!(t.st, Ts::Runnable | Ts::NotStarted))
            .map(|(i, _)| i)
            .collect()
    }

    /// Decide who runs next. `me` is the thread at the decision point (None at start or when the
    /// caller cannot continue: blocked / finished).
    fn choose(&mut self, me: Option<usize>) -> Option<usize> {
        let r = self.runnable();
        if r.is_empty() {
            return None;
        }
        self.steps += 1;
        let pick = if r.len() == 1 {
            r[0]
        } else {
            match &self.strategy {
                Strategy::Replay(list) => {
                    let p = self.replay_pos;
                    self.replay_pos += 1;
                    match list.get(p) {
                        Some(&c) if r.contains(&(c as usize)) => c as usize,
                        Some(&c) => {
                            self.diverged = Some(format!("replay choice {c} at {p} not runnable {r:?}"));
                            r[0]
                        }
                        None => me.filter(|m| r.contains(m)).unwrap_or(r[0]),
                    }
                }
                Strategy::Serial => me.filter(|m| r.contains(m)).unwrap_or(r[0]),
                Strategy::RandomWalk { p_num } => {
                    let stay = me.filter(|m| r.contains(m));
                    let x = rnd(&mut self.rng);
                    match stay {
                        Some(m) if (x & 0xff) as u32 >= *p_num => m,
                        _ => {
                            let others: Vec<usize> = r.iter().copied().filter(|t| Some(*t) != stay).collect();
                            let pool = if others.is_empty() { &r } else { &others };
                            pool[(rnd(&mut self.rng) % pool.len() as u64) as usize]
                        }
                    }
                }
                Strategy::Pct { change_points } => {
                    if let Some(m) = me {
                        if change_points.contains(&self.steps) {
                            self.low_prio -= 1;
                            self.threads[m].prio = self.low_prio;
                        }
                    }
                    *r.iter().max_by_key(|t| self.threads[**t].prio).expect("nonempty")
                }
                Strategy::Hold { tid, nth } => {
                    if let Some(m) = me {
                        if m == *tid && self.threads[m].own_steps == *nth {
                            self.threads[m].held = true;
                        }
                    }
                    let free: Vec<usize> = r.iter().copied().filter(|t| !self.threads[*t].held).collect();
                    if free.is_empty() {
                        // everyone else is blocked or done: release the held thread
                        for t in &mut self.threads {
                            t.held = false;
                        }
                        me.filter(|m| r.contains(m)).unwrap_or(r[0])
                    } else {
                        match me.filter(|m| free.contains(m)) {
                            Some(m) => m,
                            None => free[(rnd(&mut self.rng) % free.len() as u64) as usize],
                        }
                    }
                }
            }
        };
        if r.len() > 1 {
            self.choices.push(pick as u8);
            if let Some(m) = me {
                if m != pick && r.contains(&m) {
                    self.preemptions += 1;
                }
            }
        }
        Some(pick)
    }
}

fn wait_for_baton(me: usize, mut g: std::sync::MutexGuard<'static, Option<State>>) {
    loop {
        {
            let s = g.as_ref().expect("sched state");
            if s.current == me {
                return;
            }
        }
        g = CV.wait(g).expect("cv");
    }
}

fn record_site(s: &mut State, me: usize, site: &str) {
    let id = site_id(site);
    fnv(&mut s.site_hash, &[me as u8]);
    fnv(&mut s.site_hash, &id.to_le_bytes());
    if s.sites.len() < 4096 {
        s.sites.push((me as u8, id));
    }
    s.threads[me].own_steps += 1;
}

/// A point at which the scheduler may hand the baton to another thread.
pub fn switch_point(site: &str) {
    let Some(me) = current_tid() else { return };
    let mut g = STATE.lock().expect("sched lock");
    let Some(s) = g.as_mut() else { return };
    if s.deadlock.is_some() {
        return;
    }
    record_site(s, me, site);
    if s.steps >= s.max_steps {
        return; // budget exhausted: keep running without further switches
    }
    let next = s.choose(Some(me)).unwrap_or(me);
    if next != me {
        s.current = next;
        if s.threads[next].st == Ts::NotStarted {
            s.threads[next].st = Ts::Runnable;
        }
        CV.notify_all();
        wait_for_baton(me, g);
    }
}

/// The calling simulated thread cannot proceed until `res` is released.
pub fn block_on(res: usize, site: &str) {
    let Some(me) = current_tid() else {
        std::thread::yield_now();
        return;
    };
    let mut g = STATE.lock().expect("sched lock");
    let Some(s) = g.as_mut() else { return };
    record_site(s, me, site);
    s.threads[me].st = Ts::Blocked(res);
    match s.choose(None) {
        Some(next) => {
            s.current = next;
            if s.threads[next].st == Ts::NotStarted {
                s.threads[next].st = Ts::Runnable;
            }
            CV.notify_all();
            wait_for_baton(me, g);
        }
        None => {
            // nobody can run: a deadlock among simulated threads
            let desc: Vec<String> = s
                .threads
                .iter()
                .enumerate()
                .map(|(i, t)| format!("t{i}:{:?}", t.st))
                .collect();
            s.deadlock = Some(format!("deadlock at site {site}: {}", desc.join(" ")));
            s.current = usize::MAX - 1; // wake the supervisor
            CV.notify_all();
            // park forever (the child process exits after reporting)
            loop {
                g = CV.wait(g).expect("cv");
            }
        }
    }
}

/// Resource `res` was released (called by any thread, simulated or not).
pub fn release(res: usize) {
    if !active() {
        return;
    }
    let mut g = STATE.lock().expect("sched lock");
    if let Some(s) = g.as_mut() {
        for t in &mut s.threads {
            if t.st == Ts::Blocked(res) {
                t.st = Ts::Runnable;
            }
        }
    }
}

pub struct Config {
    pub seed: u64,
    pub strategy: Strategy,
    pub max_steps: u64,
}

type Body = Box<dyn FnOnce() + Send + 'static>;

/// Run the bodies as simulated threads under the scheduler; returns when all have finished or a
/// deadlock was detected. Must be called from a thread that is not itself simulated.
pub fn run(cfg: Config, bodies: Vec<Body>) -> RunResult {
    let n = bodies.len();
    let mut rng = cfg.seed ^ 0x5DEECE66D;
    let threads: Vec<Th> = (0..n)
        .map(|_| Th { st: Ts::NotStarted, prio: (rnd(&mut rng) % 1000) as i64 + 10, own_steps: 0, held: false })
        .collect();
    {
        let mut g = STATE.lock().expect("sched lock");
        *g = Some(State {
            threads,
            current: usize::MAX,
            rng,
            strategy: cfg.strategy,
            steps: 0,
            choices: Vec::new(),
            replay_pos: 0,
            site_hash: 0xcbf29ce484222325,
            preemptions: 0,
            deadlock: None,
            diverged: None,
            max_steps: cfg.max_steps,
            low_prio: 0,
            sites: Vec::new(),
        });
    }
    ACTIVE.store(true, Ordering::SeqCst);
    let panics = std::sync::Arc::new(Mutex::new(Vec::<(usize, String)>::new()));
    let mut handles = Vec::new();
    for (tid, body) in bodies.into_iter().enumerate() {
        let panics = panics.clone();
        let h = std::thread::Builder::new()
            .name(format!("sim-t{tid}"))
            .stack_size(16 << 20)
            .spawn(move || {
                SIM_TID.with(|t| t.set(tid));
                {
                    let g = STATE.lock().expect("sched lock");
                    wait_for_baton(tid, g);
                }
                let r = std::panic::catch_unwind(std::panic::AssertUnwindSafe(body));
                if let Err(e) = r {
                    let msg = e
                        .downcast_ref::<String>()
                        .cloned()
                        .or_else(|| e.downcast_ref::<&str>().map(|s| s.to_string()))
                        .unwrap_or_else(|| "panic".into());
                    panics.lock().expect("p").push((tid, msg));
                }
                // finished: hand the baton on
                let mut g = STATE.lock().expect("sched lock");
                if let Some(s) = g.as_mut() {
                    s.threads[tid].st = Ts::Finished;
                    match s.choose(None) {
                        Some(next) => {
                            s.current = next;
                            if s.threads[next].st == Ts::NotStarted {
                                s.threads[next].st = Ts::Runnable;
                            }
                        }
                        None => {
                            if s.threads.iter().any(|t| matches!(t.st, Ts::Blocked(_))) {
                                let desc: Vec<String> =
                                    s.threads.iter().enumerate().map(|(i, t)| format!("t{i}:{:?}", t.st)).collect();
                                s.deadlock = Some(format!("deadlock after t{tid} finished: {}", desc.join(" ")));
                            }
                            s.current = usize::MAX - 1;
                        }
                    }
                }
                CV.notify_all();
                SIM_TID.with(|t| t.set(usize::MAX));
            })
            .expect("spawn sim thread");
        handles.push(h);
    }
    // start: pick the first thread
    {
        let mut g = STATE.lock().expect("sched lock");
        let s = g.as_mut().expect("state");
        let first = s.choose(None).expect("at least one thread");
        s.threads[first].st = Ts::Runnable;
        s.current = first;
        CV.notify_all();
        // supervise
        loop {
            let s = g.as_ref().expect("state");
            if s.current == usize::MAX - 1 {
                break;
            }
            g = CV.wait(g).expect("cv");
        }
    }
    let deadlocked = STATE.lock().expect("l").as_ref().and_then(|s| s.deadlock.clone());
    if deadlocked.is_none() {
        for h in handles {
            let _ = h.join();
        }
    }
    ACTIVE.store(false, Ordering::SeqCst);
    let s = STATE.lock().expect("l").take().expect("state");
    let p = panics.lock().expect("p").clone();
    RunResult {
        choices: s.choices,
        steps: s.steps,
        site_hash: s.site_hash,
        preemptions: s.preemptions,
        deadlock: s.deadlock,
        diverged: s.diverged,
        panics: p,
        sites: s.sites,
    }
}
