//! Shim for `dashmap` (only the surface inputlayer uses): one shim RwLock around a std HashMap.
//! Guards returned by get/get_mut/iter/entry hold the lock exactly as DashMap's hold a shard lock,
//! with all keys in one shard (the worst case DashMap permits). DESIGN.md §2.2, §10.

use parking_lot::{RwLock, RwLockReadGuard, RwLockWriteGuard};
use std::borrow::Borrow;
use std::collections::HashMap;
use std::hash::Hash;
use std::ops::{Deref, DerefMut};

pub struct DashMap<K, V> {
    inner: RwLock<HashMap<K, V>>,
}

impl<K: Eq + Hash, V> Default for DashMap<K, V> {
    fn default() -> Self {
        Self::new()
    }
}

pub mod mapref {
    pub mod one {
        use super::super::*;
        pub struct Ref<'a, K, V> {
            pub(crate) g: RwLockReadGuard<'a, HashMap<K, V>>,
            pub(crate) k: *const K,
            pub(crate) v: *const V,
        }
        unsafe impl<K: Sync, V: Sync> Send for Ref<'_, K, V> {}
        unsafe impl<K: Sync, V: Sync> Sync for Ref<'_, K, V> {}
        impl<K, V> Ref<'_, K, V> {
            pub fn key(&self) -> &K {
                let _ = &self.g;
                unsafe { &*self.k }
            }
            pub fn value(&self) -> &V {
                unsafe { &*self.v }
            }
            pub fn pair(&self) -> (&K, &V) {
                (self.key(), self.value())
            }
        }
        impl<K, V> Deref for Ref<'_, K, V> {
            type Target = V;
            fn deref(&self) -> &V {
                self.value()
            }
        }
        pub struct RefMut<'a, K, V> {
            pub(crate) g: RwLockWriteGuard<'a, HashMap<K, V>>,
            pub(crate) k: *const K,
            pub(crate) v: *mut V,
        }
        unsafe impl<K: Sync, V: Send> Send for RefMut<'_, K, V> {}
        impl<K, V> RefMut<'_, K, V> {
            pub fn key(&self) -> &K {
                let _ = &self.g;
                unsafe { &*self.k }
            }
            pub fn value(&self) -> &V {
                unsafe { &*self.v }
            }
            pub fn value_mut(&mut self) -> &mut V {
                unsafe { &mut *self.v }
            }
        }
        impl<K, V> Deref for RefMut<'_, K, V> {
            type Target = V;
            fn deref(&self) -> &V {
                self.value()
            }
        }
        impl<K, V> DerefMut for RefMut<'_, K, V> {
            fn deref_mut(&mut self) -> &mut V {
                self.value_mut()
            }
        }
    }
    pub mod multiple {
        pub struct RefMulti<'a, K, V> {
            pub(crate) k: &'a K,
            pub(crate) v: &'a V,
        }
        impl<K, V> RefMulti<'_, K, V> {
            pub fn key(&self) -> &K {
                self.k
            }
            pub fn value(&self) -> &V {
                self.v
            }
            pub fn pair(&self) -> (&K, &V) {
                (self.k, self.v)
            }
        }
        impl<K, V> std::ops::Deref for RefMulti<'_, K, V> {
            type Target = V;
            fn deref(&self) -> &V {
                self.v
            }
        }
    }
    pub mod entry {
        use super::super::*;
        pub enum Entry<'a, K, V> {
            Occupied(OccupiedEntry<'a, K, V>),
            Vacant(VacantEntry<'a, K, V>),
        }
        pub struct OccupiedEntry<'a, K, V> {
            pub(crate) g: RwLockWriteGuard<'a, HashMap<K, V>>,
            pub(crate) key: K,
        }
        pub struct VacantEntry<'a, K, V> {
            pub(crate) g: RwLockWriteGuard<'a, HashMap<K, V>>,
            pub(crate) key: K,
        }
        impl<'a, K: Eq + Hash + Clone, V> OccupiedEntry<'a, K, V> {
            pub fn key(&self) -> &K {
                &self.key
            }
            pub fn get(&self) -> &V {
                self.g.get(&self.key).expect("occupied")
            }
            pub fn get_mut(&mut self) -> &mut V {
                self.g.get_mut(&self.key).expect("occupied")
            }
            pub fn insert(&mut self, v: V) -> V {
                self.g.insert(self.key.clone(), v).expect("occupied")
            }
            pub fn remove(mut self) -> V {
                self.g.remove(&self.key).expect("occupied")
            }
        }
        impl<'a, K: Eq + Hash + Clone, V> VacantEntry<'a, K, V> {
            pub fn key(&self) -> &K {
                &self.key
            }
            pub fn insert(mut self, v: V) -> super::one::RefMut<'a, K, V> {
                self.g.insert(self.key.clone(), v);
                let (k, v) = {
                    let (k, v) = self.g.get_key_value(&self.key).expect("just inserted");
                    (k as *const K, v as *const V as *mut V)
                };
                super::one::RefMut { g: self.g, k, v }
            }
        }
        impl<'a, K: Eq + Hash + Clone, V> Entry<'a, K, V> {
            pub fn or_insert_with(self, f: impl FnOnce() -> V) -> super::one::RefMut<'a, K, V> {
                match self {
                    Entry::Occupied(o) => {
                        let OccupiedEntry { g, key } = o;
                        let (k, v) = {
                            let (k, v) = g.get_key_value(&key).expect("occupied");
                            (k as *const K, v as *const V as *mut V)
                        };
                        super::one::RefMut { g, k, v }
                    }
                    Entry::Vacant(v) => v.insert(f()),
                }
            }
            pub fn or_insert(self, v: V) -> super::one::RefMut<'a, K, V> {
                self.or_insert_with(|| v)
            }
            pub fn or_default(self) -> super::one::RefMut<'a, K, V>
            where
                V: Default,
            {
                self.or_insert_with(V::default)
            }
        }
    }
}

pub struct Iter<'a, K, V> {
    // field order: `it` borrows from `_g`, drop it first
    it: std::collections::hash_map::Iter<'a, K, V>,
    _g: RwLockReadGuard<'a, HashMap<K, V>>,
}
impl<'a, K, V> Iterator for Iter<'a, K, V> {
    type Item = mapref::multiple::RefMulti<'a, K, V>;
    fn next(&mut self) -> Option<Self::Item> {
        self.it.next().map(|(k, v)| mapref::multiple::RefMulti { k, v })
    }
}

impl<K: Eq + Hash, V> DashMap<K, V> {
    pub fn new() -> Self {
        DashMap { inner: RwLock::new(HashMap::new()) }
    }
    pub fn with_capacity(n: usize) -> Self {
        DashMap { inner: RwLock::new(HashMap::with_capacity(n)) }
    }
    pub fn get<Q>(&self, key: &Q) -> Option<mapref::one::Ref<'_, K, V>>
    where
        K: Borrow<Q>,
        Q: Hash + Eq + ?Sized,
    {
        let g = self.inner.read();
        let (k, v) = {
            let (k, v) = g.get_key_value(key)?;
            (k as *const K, v as *const V)
        };
        Some(mapref::one::Ref { g, k, v })
    }
    pub fn get_mut<Q>(&self, key: &Q) -> Option<mapref::one::RefMut<'_, K, V>>
    where
        K: Borrow<Q>,
        Q: Hash + Eq + ?Sized,
    {
        let mut g = self.inner.write();
        let (k, v) = {
            let (k, v) = g.get_key_value(key)?;
            (k as *const K, v as *const V as *mut V)
        };
        let _ = &mut g;
        Some(mapref::one::RefMut { g, k, v })
    }
    pub fn insert(&self, k: K, v: V) -> Option<V> {
        self.inner.write().insert(k, v)
    }
    pub fn remove<Q>(&self, key: &Q) -> Option<(K, V)>
    where
        K: Borrow<Q>,
        Q: Hash + Eq + ?Sized,
    {
        self.inner.write().remove_entry(key)
    }
    pub fn contains_key<Q>(&self, key: &Q) -> bool
    where
        K: Borrow<Q>,
        Q: Hash + Eq + ?Sized,
    {
        self.inner.read().contains_key(key)
    }
    pub fn len(&self) -> usize {
        self.inner.read().len()
    }
    pub fn is_empty(&self) -> bool {
        self.inner.read().is_empty()
    }
    pub fn clear(&self) {
        self.inner.write().clear()
    }
    pub fn retain(&self, mut f: impl FnMut(&K, &mut V) -> bool) {
        self.inner.write().retain(|k, v| f(k, v))
    }
    pub fn iter(&self) -> Iter<'_, K, V> {
        let g = self.inner.read();
        // SAFETY: the iterator borrows the map behind the guard, which lives as long as Iter and
        // is dropped after `it` (field order).
        let it = unsafe { std::mem::transmute::<std::collections::hash_map::Iter<'_, K, V>, std::collections::hash_map::Iter<'_, K, V>>(g.iter()) };
        Iter { it, _g: g }
    }
    pub fn entry(&self, key: K) -> mapref::entry::Entry<'_, K, V> {
        let g = self.inner.write();
        if g.contains_key(&key) {
            mapref::entry::Entry::Occupied(mapref::entry::OccupiedEntry { g, key })
        } else {
            mapref::entry::Entry::Vacant(mapref::entry::VacantEntry { g, key })
        }
    }
}
