//! Shim for `parking_lot` (only the surface inputlayer uses). Wraps the *real* primitives; a
//! simulated thread acquires with try_lock in a loop and waits inside the scheduler, every other
//! thread uses the real blocking call. DESIGN.md §2.2 / §5.1.

use std::ops::{Deref, DerefMut};
use std::sync::atomic::{AtomicUsize, Ordering};
use std::time::Duration;

static NEXT_ID: AtomicUsize = AtomicUsize::new(1);

#[inline]
fn lock_id(slot: &AtomicUsize) -> usize {
    let v = slot.load(Ordering::Relaxed);
    if v != 0 {
        return v;
    }
    let n = NEXT_ID.fetch_add(1, Ordering::Relaxed);
    match slot.compare_exchange(0, n, Ordering::Relaxed, Ordering::Relaxed) {
        Ok(_) => n,
        Err(cur) => cur,
    }
}

fn site(kind: &str, ty: &str) -> String {
    // static identity of the lock: the protected type (stable across runs and refactor-tolerant)
    let short = ty.rsplit("::").next().unwrap_or(ty);
    let mut s = String::with_capacity(kind.len() + short.len() + 1);
    s.push_str(kind);
    s.push(':');
    s.push_str(&short[..short.len().min(40)]);
    s
}

// ------------------------------------------------------------------------------------- Mutex

pub struct Mutex<T: ?Sized> {
    id: AtomicUsize,
    sim_holders: AtomicUsize,
    inner: real::Mutex<T>,
}

pub struct MutexGuard<'a, T: ?Sized> {
    g: Option<real::MutexGuard<'a, T>>,
    m: &'a Mutex<T>,
    sim: bool,
}

impl<T> Mutex<T> {
    pub const fn new(v: T) -> Self {
        Mutex { id: AtomicUsize::new(0), sim_holders: AtomicUsize::new(0), inner: real::Mutex::new(v) }
    }
    pub fn into_inner(self) -> T {
        self.inner.into_inner()
    }
}

impl<T: ?Sized> Mutex<T> {
    pub fn lock(&self) -> MutexGuard<'_, T> {
        if simsched::current_tid().is_some() {
            let id = lock_id(&self.id);
            let st = site("mutex.lock", std::any::type_name::<T>());
            loop {
                simsched::switch_point(&st);
                if let Some(g) = self.inner.try_lock() {
                    self.sim_holders.fetch_add(1, Ordering::SeqCst);
                    return MutexGuard { g: Some(g), m: self, sim: true };
                }
                if self.sim_holders.load(Ordering::SeqCst) == 0 {
                    std::thread::yield_now(); // held by a free-running helper thread
                } else {
                    simsched::block_on(id, &st);
                }
            }
        } else {
            MutexGuard { g: Some(self.inner.lock()), m: self, sim: false }
        }
    }
    pub fn try_lock(&self) -> Option<MutexGuard<'_, T>> {
        let sim = simsched::current_tid().is_some();
        if sim {
            simsched::switch_point(&site("mutex.try_lock", std::any::type_name::<T>()));
        }
        self.inner.try_lock().map(|g| {
            if sim {
                self.sim_holders.fetch_add(1, Ordering::SeqCst);
            }
            MutexGuard { g: Some(g), m: self, sim }
        })
    }
    pub fn get_mut(&mut self) -> &mut T {
        self.inner.get_mut()
    }
    pub fn is_locked(&self) -> bool {
        self.inner.is_locked()
    }
}

impl<T: ?Sized> Drop for MutexGuard<'_, T> {
    fn drop(&mut self) {
        self.g.take();
        if self.sim {
            self.m.sim_holders.fetch_sub(1, Ordering::SeqCst);
        }
        if simsched::active() {
            let id = self.m.id.load(Ordering::Relaxed);
            if id != 0 {
                simsched::release(id);
            }
            if self.sim && !std::thread::panicking() {
                simsched::switch_point(&site("mutex.unlock", std::any::type_name::<T>()));
            }
        }
    }
}
impl<T: ?Sized> Deref for MutexGuard<'_, T> {
    type Target = T;
    fn deref(&self) -> &T {
        self.g.as_ref().expect("guard")
    }
}
impl<T: ?Sized> DerefMut for MutexGuard<'_, T> {
    fn deref_mut(&mut self) -> &mut T {
        self.g.as_mut().expect("guard")
    }
}
impl<T: Default> Default for Mutex<T> {
    fn default() -> Self {
        Mutex::new(T::default())
    }
}
impl<T: ?Sized + std::fmt::Debug> std::fmt::Debug for Mutex<T> {
    fn fmt(&self, f: &mut std::fmt::Formatter<'_>) -> std::fmt::Result {
        self.inner.fmt(f)
    }
}
impl<T> From<T> for Mutex<T> {
    fn from(v: T) -> Self {
        Mutex::new(v)
    }
}

// ------------------------------------------------------------------------------------ RwLock

pub struct RwLock<T: ?Sized> {
    id: AtomicUsize,
    sim_holders: AtomicUsize,
    inner: real::RwLock<T>,
}

pub struct RwLockReadGuard<'a, T: ?Sized> {
    g: Option<real::RwLockReadGuard<'a, T>>,
    l: &'a RwLock<T>,
    sim: bool,
}
pub struct RwLockWriteGuard<'a, T: ?Sized> {
    g: Option<real::RwLockWriteGuard<'a, T>>,
    l: &'a RwLock<T>,
    sim: bool,
}

impl<T> RwLock<T> {
    pub const fn new(v: T) -> Self {
        RwLock { id: AtomicUsize::new(0), sim_holders: AtomicUsize::new(0), inner: real::RwLock::new(v) }
    }
    pub fn into_inner(self) -> T {
        self.inner.into_inner()
    }
}

impl<T: ?Sized> RwLock<T> {
    pub fn read(&self) -> RwLockReadGuard<'_, T> {
        if simsched::current_tid().is_some() {
            let id = lock_id(&self.id);
            let st = site("rwlock.read", std::any::type_name::<T>());
            loop {
                simsched::switch_point(&st);
                // try_read_recursive: the scheduler, not parking_lot's writer preference, decides
                // who goes first (DESIGN.md §5.5)
                if let Some(g) = self.inner.try_read_recursive() {
                    self.sim_holders.fetch_add(1, Ordering::SeqCst);
                    return RwLockReadGuard { g: Some(g), l: self, sim: true };
                }
                if self.sim_holders.load(Ordering::SeqCst) == 0 {
                    std::thread::yield_now();
                } else {
                    simsched::block_on(id, &st);
                }
            }
        } else {
            RwLockReadGuard { g: Some(self.inner.read()), l: self, sim: false }
        }
    }
    pub fn write(&self) -> RwLockWriteGuard<'_, T> {
        if simsched::current_tid().is_some() {
            let id = lock_id(&self.id);
            let st = site("rwlock.write", std::any::type_name::<T>());
            loop {
                simsched::switch_point(&st);
                if let Some(g) = self.inner.try_write() {
                    self.sim_holders.fetch_add(1, Ordering::SeqCst);
                    return RwLockWriteGuard { g: Some(g), l: self, sim: true };
                }
                if self.sim_holders.load(Ordering::SeqCst) == 0 {
                    std::thread::yield_now();
                } else {
                    simsched::block_on(id, &st);
                }
            }
        } else {
            RwLockWriteGuard { g: Some(self.inner.write()), l: self, sim: false }
        }
    }
    pub fn try_read(&self) -> Option<RwLockReadGuard<'_, T>> {
        let sim = simsched::current_tid().is_some();
        if sim {
            simsched::switch_point(&site("rwlock.try_read", std::any::type_name::<T>()));
        }
        self.inner.try_read_recursive().map(|g| {
            if sim {
                self.sim_holders.fetch_add(1, Ordering::SeqCst);
            }
            RwLockReadGuard { g: Some(g), l: self, sim }
        })
    }
    pub fn try_write(&self) -> Option<RwLockWriteGuard<'_, T>> {
        let sim = simsched::current_tid().is_some();
        if sim {
            simsched::switch_point(&site("rwlock.try_write", std::any::type_name::<T>()));
        }
        self.inner.try_write().map(|g| {
            if sim {
                self.sim_holders.fetch_add(1, Ordering::SeqCst);
            }
            RwLockWriteGuard { g: Some(g), l: self, sim }
        })
    }
    /// Under simulation a timed acquire is a plain try (the timeout elapsing is one legal outcome,
    /// succeeding is the other; the scheduler's switch point before it explores both).
    pub fn try_read_for(&self, d: Duration) -> Option<RwLockReadGuard<'_, T>> {
        if simsched::current_tid().is_some() {
            self.try_read()
        } else {
            self.inner.try_read_for(d).map(|g| RwLockReadGuard { g: Some(g), l: self, sim: false })
        }
    }
    pub fn try_write_for(&self, d: Duration) -> Option<RwLockWriteGuard<'_, T>> {
        if simsched::current_tid().is_some() {
            self.try_write()
        } else {
            self.inner.try_write_for(d).map(|g| RwLockWriteGuard { g: Some(g), l: self, sim: false })
        }
    }
    pub fn get_mut(&mut self) -> &mut T {
        self.inner.get_mut()
    }
}

fn rw_release<T: ?Sized>(l: &RwLock<T>, sim: bool, what: &str) {
    if sim {
        l.sim_holders.fetch_sub(1, Ordering::SeqCst);
    }
    if simsched::active() {
        let id = l.id.load(Ordering::Relaxed);
        if id != 0 {
            simsched::release(id);
        }
        if sim && !std::thread::panicking() {
            simsched::switch_point(&site(what, std::any::type_name::<T>()));
        }
    }
}

impl<T: ?Sized> Drop for RwLockReadGuard<'_, T> {
    fn drop(&mut self) {
        self.g.take();
        rw_release(self.l, self.sim, "rwlock.unlock_read");
    }
}
impl<T: ?Sized> Drop for RwLockWriteGuard<'_, T> {
    fn drop(&mut self) {
        self.g.take();
        rw_release(self.l, self.sim, "rwlock.unlock_write");
    }
}
impl<T: ?Sized> Deref for RwLockReadGuard<'_, T> {
    type Target = T;
    fn deref(&self) -> &T {
        self.g.as_ref().expect("guard")
    }
}
impl<T: ?Sized> Deref for RwLockWriteGuard<'_, T> {
    type Target = T;
    fn deref(&self) -> &T {
        self.g.as_ref().expect("guard")
    }
}
impl<T: ?Sized> DerefMut for RwLockWriteGuard<'_, T> {
    fn deref_mut(&mut self) -> &mut T {
        self.g.as_mut().expect("guard")
    }
}
impl<T: Default> Default for RwLock<T> {
    fn default() -> Self {
        RwLock::new(T::default())
    }
}
impl<T: ?Sized + std::fmt::Debug> std::fmt::Debug for RwLock<T> {
    fn fmt(&self, f: &mut std::fmt::Formatter<'_>) -> std::fmt::Result {
        self.inner.fmt(f)
    }
}
impl<T> From<T> for RwLock<T> {
    fn from(v: T) -> Self {
        RwLock::new(v)
    }
}
