//! Shim for `arc-swap` (only the surface inputlayer uses: the published knowledge-graph snapshot).
//! The real ArcSwap does the work; a simulated thread passes a scheduling point before every
//! store / load, so that the window between two publications of a snapshot - and between a
//! publication and the state change it belongs to - is visible to the seeded scheduler.
//! Threads unknown to the scheduler use it as the plain ArcSwap. DESIGN.md §2.2 / §5.1.

use std::sync::Arc;

pub use real::Guard;

pub struct ArcSwap<T> {
    inner: real::ArcSwap<T>,
}

#[inline]
fn point(kind: &str, ty: &str) {
    if simsched::current_tid().is_some() {
        let short = ty.rsplit("::").next().unwrap_or(ty);
        let mut s = String::with_capacity(kind.len() + short.len() + 1);
        s.push_str(kind);
        s.push(':');
        s.push_str(&short[..short.len().min(40)]);
        simsched::switch_point(&s);
    }
}

impl<T> ArcSwap<T> {
    pub fn new(v: Arc<T>) -> Self {
        ArcSwap { inner: real::ArcSwap::new(v) }
    }
    pub fn from_pointee(v: T) -> Self {
        ArcSwap { inner: real::ArcSwap::from_pointee(v) }
    }
    pub fn store(&self, v: Arc<T>) {
        point("arcswap-store", std::any::type_name::<T>());
        self.inner.store(v);
    }
    pub fn swap(&self, v: Arc<T>) -> Arc<T> {
        point("arcswap-store", std::any::type_name::<T>());
        self.inner.swap(v)
    }
    pub fn load_full(&self) -> Arc<T> {
        point("arcswap-load", std::any::type_name::<T>());
        self.inner.load_full()
    }
    pub fn load(&self) -> Guard<Arc<T>> {
        point("arcswap-load", std::any::type_name::<T>());
        self.inner.load()
    }
    pub fn into_inner(self) -> Arc<T> {
        self.inner.into_inner()
    }
}

impl<T: std::fmt::Debug> std::fmt::Debug for ArcSwap<T> {
    fn fmt(&self, f: &mut std::fmt::Formatter<'_>) -> std::fmt::Result {
        self.inner.fmt(f)
    }
}

impl<T: Default> Default for ArcSwap<T> {
    fn default() -> Self {
        ArcSwap::from_pointee(T::default())
    }
}
