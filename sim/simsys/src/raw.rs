//! Raw x86-64 Linux syscalls (the interposed libc symbols cannot call libc's wrappers).

use core::arch::asm;

#[inline(always)]
pub unsafe fn syscall6(n: i64, a1: i64, a2: i64, a3: i64, a4: i64, a5: i64, a6: i64) -> i64 {
    let ret: i64;
    asm!(
        "syscall",
        inlateout("rax") n => ret,
        in("rdi") a1,
        in("rsi") a2,
        in("rdx") a3,
        in("r10") a4,
        in("r8") a5,
        in("r9") a6,
        lateout("rcx") _,
        lateout("r11") _,
        options(nostack)
    );
    ret
}

pub const SYS_READ: i64 = 0;
pub const SYS_WRITE: i64 = 1;
pub const SYS_CLOSE: i64 = 3;
pub const SYS_LSEEK: i64 = 8;
pub const SYS_PWRITE64: i64 = 18;
pub const SYS_WRITEV: i64 = 20;
pub const SYS_SCHED_YIELD: i64 = 24;
pub const SYS_NANOSLEEP: i64 = 35;
pub const SYS_FSYNC: i64 = 74;
pub const SYS_FDATASYNC: i64 = 75;
pub const SYS_FTRUNCATE: i64 = 77;
pub const SYS_RENAME: i64 = 82;
pub const SYS_MKDIR: i64 = 83;
pub const SYS_RMDIR: i64 = 84;
pub const SYS_LINK: i64 = 86;
pub const SYS_UNLINK: i64 = 87;
pub const SYS_SYMLINK: i64 = 88;
pub const SYS_GETTIMEOFDAY: i64 = 96;
pub const SYS_TIME: i64 = 201;
pub const SYS_CLOCK_GETTIME: i64 = 228;
pub const SYS_CLOCK_NANOSLEEP: i64 = 230;
pub const SYS_OPENAT: i64 = 257;
pub const SYS_MKDIRAT: i64 = 258;
pub const SYS_UNLINKAT: i64 = 263;
pub const SYS_RENAMEAT: i64 = 264;
pub const SYS_LINKAT: i64 = 265;
pub const SYS_SYMLINKAT: i64 = 266;
pub const SYS_SYNC_FILE_RANGE: i64 = 277;
pub const SYS_RENAMEAT2: i64 = 316;
pub const SYS_GETRANDOM: i64 = 318;
pub const SYS_COPY_FILE_RANGE: i64 = 326;

pub const AT_FDCWD: i64 = -100;

/// Convert a raw return (-errno on failure) to libc convention, setting errno.
#[inline]
pub unsafe fn ret(r: i64) -> i64 {
    if r < 0 && r > -4096 {
        *libc::__errno_location() = (-r) as i32;
        -1
    } else {
        r
    }
}

#[inline]
pub unsafe fn fail(errno: i32) -> i64 {
    *libc::__errno_location() = errno;
    -1
}
