//! The libc seam: bodies of the interposed functions + simulator-side control API.

use crate::disk::{DiskModel, Image, ImageStats, Ino, Op, Tree};
use crate::raw::*;
use libc::{c_char, c_int, c_long, c_uint, c_void, size_t, ssize_t};
use std::cell::Cell;
use std::collections::BTreeMap;
use std::sync::atomic::{AtomicBool, AtomicPtr, AtomicU64, Ordering};

// ---------------------------------------------------------------------------------------------
// global state

pub static ENABLED: AtomicBool = AtomicBool::new(false);
static LOCK: AtomicBool = AtomicBool::new(false);
static mut SYS: Option<Sys> = None;

thread_local! {
    static BYPASS: Cell<u32> = const { Cell::new(0) };
    static TICKS: Cell<u64> = const { Cell::new(0) };
    static THREAD_ORD: Cell<u64> = const { Cell::new(0) };
    static ENT_CTR: Cell<u64> = const { Cell::new(0) };
}

pub struct BypassGuard;
impl BypassGuard {
    pub fn new() -> Self {
        BYPASS.with(|b| b.set(b.get() + 1));
        BypassGuard
    }
}
impl Drop for BypassGuard {
    fn drop(&mut self) {
        BYPASS.with(|b| b.set(b.get() - 1));
    }
}
#[inline]
fn bypassed() -> bool {
    BYPASS.try_with(|b| b.get() > 0).unwrap_or(true)
}
#[inline]
fn active() -> bool {
    ENABLED.load(Ordering::Relaxed) && !bypassed()
}

struct Locked;
impl Locked {
    fn new() -> Self {
        while LOCK.compare_exchange_weak(false, true, Ordering::Acquire, Ordering::Relaxed).is_err() {
            unsafe { syscall6(SYS_SCHED_YIELD, 0, 0, 0, 0, 0, 0) };
        }
        Locked
    }
    #[allow(static_mut_refs)]
    fn sys(&mut self) -> &mut Sys {
        unsafe { SYS.as_mut().expect("simsys not initialised") }
    }
}
impl Drop for Locked {
    fn drop(&mut self) {
        LOCK.store(false, Ordering::Release);
    }
}

/// Hook called (outside the simsys lock) before every gated file-system event; the thread
/// scheduler installs itself here so that FS mutations are switch points.
pub type SwitchHook = fn(kind: &'static str, path: &str);
static SWITCH_HOOK: AtomicPtr<()> = AtomicPtr::new(std::ptr::null_mut());
pub fn set_switch_hook(h: Option<SwitchHook>) {
    SWITCH_HOOK.store(h.map_or(std::ptr::null_mut(), |f| f as *mut ()), Ordering::SeqCst);
}
fn call_switch_hook(kind: &'static str, path: &str) {
    let p = SWITCH_HOOK.load(Ordering::SeqCst);
    if !p.is_null() {
        let f: SwitchHook = unsafe { std::mem::transmute(p) };
        f(kind, path);
    }
}

#[derive(Clone, Debug)]
pub enum Fault {
    Errno(i32),
    /// write only: write at most this many bytes (>=1)
    Short(usize),
}

#[derive(Clone, Debug, Default)]
pub struct FaultPlan {
    /// the gated event with this ordinal does not happen and the disk freezes
    pub crash_at: Option<u64>,
    /// if the crash event is a write, keep it as a pending (possibly torn) write in the model
    pub crash_inflight_write: bool,
    pub faults: BTreeMap<u64, Fault>,
}

#[derive(Clone, Debug)]
pub struct TraceEv {
    pub ord: u64,
    pub kind: &'static str,
    pub path: String,
    pub len: usize,
}

#[derive(Clone, Debug, Default)]
pub struct Counters {
    pub events: u64,
    pub writes: u64,
    pub bytes: u64,
    pub fsyncs: u64,
    pub renames: u64,
    pub unlinks: u64,
    pub creates: u64,
    pub truncates: u64,
    pub mkdirs: u64,
    pub faults_errno: BTreeMap<i32, u64>,
    pub faults_short: u64,
    pub frozen_rejects: u64,
    pub crashes: u64,
    pub unmodelled: Vec<String>,
}

struct Fd {
    ino: Option<Ino>,
    path: String,
    append: bool,
}

pub struct Sys {
    root: String,
    pub model: DiskModel,
    fds: BTreeMap<i32, Fd>,
    ordinal: u64,
    frozen: bool,
    plan: FaultPlan,
    trace: Vec<TraceEv>,
    crash_event: Option<TraceEv>,
    pub counters: Counters,
}

enum Gate {
    Ok,
    Fail(i32),
    Short(usize),
    Crash,
}

impl Sys {
    fn rel(&self, abs: &str) -> Option<String> {
        let n = norm(abs);
        if n == self.root {
            return Some(String::new());
        }
        if n.len() > self.root.len() && n.starts_with(&self.root) && n.as_bytes()[self.root.len()] == b'/' {
            Some(n[self.root.len() + 1..].to_string())
        } else {
            None
        }
    }
    fn resolve(&self, dirfd: c_int, path: &str) -> Option<String> {
        if path.starts_with('/') {
            self.rel(path)
        } else if dirfd as i64 == AT_FDCWD {
            None
        } else {
            let d = self.fds.get(&dirfd)?;
            if d.ino.is_some() {
                return None;
            }
            let p = norm(path);
            if p.is_empty() || p == "." {
                Some(d.path.clone())
            } else if d.path.is_empty() {
                Some(p)
            } else {
                Some(format!("{}/{}", d.path, p))
            }
        }
    }
    fn gate(&mut self, kind: &'static str, path: &str, len: usize) -> Gate {
        if self.frozen {
            self.counters.frozen_rejects += 1;
            return Gate::Fail(libc::EIO);
        }
        let k = self.ordinal;
        self.ordinal += 1;
        self.counters.events += 1;
        let ev = TraceEv { ord: k, kind, path: path.to_string(), len };
        if self.trace.len() < 20000 {
            self.trace.push(ev.clone());
        }
        if self.plan.crash_at == Some(k) {
            self.frozen = true;
            self.counters.crashes += 1;
            self.crash_event = Some(ev);
            return Gate::Crash;
        }
        match self.plan.faults.get(&k) {
            Some(Fault::Errno(e)) => {
                *self.counters.faults_errno.entry(*e).or_default() += 1;
                Gate::Fail(*e)
            }
            Some(Fault::Short(n)) => {
                if kind == "write" && len > 1 {
                    self.counters.faults_short += 1;
                    Gate::Short((*n).clamp(1, len - 1))
                } else {
                    Gate::Ok
                }
            }
            None => Gate::Ok,
        }
    }
    fn parent_is_dir(&self, rel: &str) -> bool {
        match rel.rfind('/') {
            Some(i) => self.model.live.dirs.contains(&rel[..i]),
            None => true,
        }
    }
}

fn norm(p: &str) -> String {
    let abs = p.starts_with('/');
    let mut parts: Vec<&str> = Vec::new();
    for c in p.split('/') {
        match c {
            "" | "." => {}
            ".." => {
                parts.pop();
            }
            x => parts.push(x),
        }
    }
    let j = parts.join("/");
    if abs {
        format!("/{j}")
    } else {
        j
    }
}

unsafe fn cstr<'a>(p: *const c_char) -> &'a str {
    std::ffi::CStr::from_ptr(p).to_str().unwrap_or("")
}

// ---------------------------------------------------------------------------------------------
// control API (called by the simulator, never by the system under test)

pub struct SimConfig {
    pub root: String,
    pub seed: u64,
}

static SEED: AtomicU64 = AtomicU64::new(0);
static CLOCK_NS: AtomicU64 = AtomicU64::new(0);
static REALTIME_SKEW_NS: AtomicU64 = AtomicU64::new(0);
static NEXT_ORD: AtomicU64 = AtomicU64::new(1);

#[allow(static_mut_refs)]
pub fn enable(cfg: SimConfig) {
    let _b = BypassGuard::new();
    let root = norm(&cfg.root);
    let _ = std::fs::remove_dir_all(&root);
    std::fs::create_dir_all(&root).expect("create sim root");
    SEED.store(cfg.seed, Ordering::SeqCst);
    CLOCK_NS.store(0, Ordering::SeqCst);
    let _l = Locked::new();
    unsafe {
        SYS = Some(Sys {
            root,
            model: DiskModel::new(),
            fds: BTreeMap::new(),
            ordinal: 0,
            frozen: false,
            plan: FaultPlan::default(),
            trace: Vec::new(),
            crash_event: None,
            counters: Counters::default(),
        });
    }
    ENABLED.store(true, Ordering::SeqCst);
}

pub fn disable_and_cleanup() {
    let _b = BypassGuard::new();
    ENABLED.store(false, Ordering::SeqCst);
    let mut l = Locked::new();
    let root = l.sys().root.clone();
    drop(l);
    let _ = std::fs::remove_dir_all(root);
}

pub fn set_plan(plan: FaultPlan) {
    let _b = BypassGuard::new();
    let mut l = Locked::new();
    l.sys().plan = plan;
}
pub fn ordinal() -> u64 {
    let _b = BypassGuard::new();
    let mut l = Locked::new();
    l.sys().ordinal
}
pub fn is_frozen() -> bool {
    let _b = BypassGuard::new();
    let mut l = Locked::new();
    l.sys().frozen
}
pub fn crash_event() -> Option<TraceEv> {
    let _b = BypassGuard::new();
    let mut l = Locked::new();
    l.sys().crash_event.clone()
}
pub fn take_trace() -> Vec<TraceEv> {
    let _b = BypassGuard::new();
    let mut l = Locked::new();
    std::mem::take(&mut l.sys().trace)
}
pub fn trace_len() -> usize {
    let _b = BypassGuard::new();
    let mut l = Locked::new();
    l.sys().trace.len()
}
pub fn counters() -> Counters {
    let _b = BypassGuard::new();
    let mut l = Locked::new();
    l.sys().counters.clone()
}
pub fn pending_summary() -> (usize, usize) {
    let _b = BypassGuard::new();
    let mut l = Locked::new();
    let m = &l.sys().model;
    (m.pending_ns(), m.pending.len() - m.pending_ns())
}
pub fn durable_shape_hash() -> u64 {
    let _b = BypassGuard::new();
    let mut l = Locked::new();
    l.sys().model.durable.shape_hash() ^ l.sys().model.live.shape_hash().rotate_left(17)
}

/// Freeze the disk right now (a crash at an operation boundary).
pub fn freeze_now() {
    let _b = BypassGuard::new();
    let mut l = Locked::new();
    let s = l.sys();
    if !s.frozen {
        s.frozen = true;
        s.counters.crashes += 1;
    }
}

/// Replace the directory contents by the chosen crash image and thaw the disk.
pub fn crash_restore(image: &Image) -> ImageStats {
    let _b = BypassGuard::new();
    let (tree, stats, root) = {
        let mut l = Locked::new();
        let s = l.sys();
        let (t, st) = s.model.image(image);
        (t, st, s.root.clone())
    };
    materialise(&root, &tree);
    let mut l = Locked::new();
    let s = l.sys();
    s.model.reset_to(tree);
    s.fds.clear();
    s.frozen = false;
    s.plan = FaultPlan::default();
    s.crash_event = None;
    stats
}

fn materialise(root: &str, tree: &Tree) {
    let _ = std::fs::remove_dir_all(root);
    std::fs::create_dir_all(root).expect("recreate root");
    for d in &tree.dirs {
        if !d.is_empty() {
            std::fs::create_dir_all(format!("{root}/{d}")).expect("mkdir image");
        }
    }
    for (p, content) in tree.visible() {
        if let Some(i) = p.rfind('/') {
            let _ = std::fs::create_dir_all(format!("{root}/{}", &p[..i]));
        }
        std::fs::write(format!("{root}/{p}"), content).expect("write image");
    }
}

/// Compare the kernel's view of the directory with the model's live tree.
pub fn audit() -> Result<(), String> {
    let _b = BypassGuard::new();
    let (live, root, unmodelled) = {
        let mut l = Locked::new();
        let s = l.sys();
        (s.model.live.clone(), s.root.clone(), s.counters.unmodelled.clone())
    };
    if !unmodelled.is_empty() {
        return Err(format!("unmodelled calls on tracked paths: {unmodelled:?}"));
    }
    let mut real_files: BTreeMap<String, Vec<u8>> = BTreeMap::new();
    let mut real_dirs: std::collections::BTreeSet<String> = Default::default();
    fn walk(
        root: &str,
        rel: &str,
        files: &mut BTreeMap<String, Vec<u8>>,
        dirs: &mut std::collections::BTreeSet<String>,
    ) -> Result<(), String> {
        dirs.insert(rel.to_string());
        let p = if rel.is_empty() { root.to_string() } else { format!("{root}/{rel}") };
        for e in std::fs::read_dir(&p).map_err(|e| format!("read_dir {p}: {e}"))? {
            let e = e.map_err(|e| e.to_string())?;
            let name = e.file_name().to_string_lossy().to_string();
            let r = if rel.is_empty() { name } else { format!("{rel}/{name}") };
            let ft = e.file_type().map_err(|e| e.to_string())?;
            if ft.is_dir() {
                walk(root, &r, files, dirs)?;
            } else {
                files.insert(r.clone(), std::fs::read(format!("{root}/{r}")).map_err(|e| e.to_string())?);
            }
        }
        Ok(())
    }
    walk(&root, "", &mut real_files, &mut real_dirs)?;
    let model_files = live.visible();
    if real_dirs != live.dirs {
        return Err(format!("dir sets differ: real={real_dirs:?} model={:?}", live.dirs));
    }
    if real_files.keys().collect::<Vec<_>>() != model_files.keys().collect::<Vec<_>>() {
        return Err(format!(
            "file sets differ: real={:?} model={:?}",
            real_files.keys().collect::<Vec<_>>(),
            model_files.keys().collect::<Vec<_>>()
        ));
    }
    for (p, c) in &real_files {
        if &model_files[p] != c {
            return Err(format!("content differs for {p}: real {} bytes, model {} bytes", c.len(), model_files[p].len()));
        }
    }
    Ok(())
}

/// Flip bytes / replace contents of a file directly (bit-rot style faults), keeping model in sync.
pub fn list_files() -> Vec<(String, usize)> {
    let _b = BypassGuard::new();
    let mut l = Locked::new();
    l.sys().model.live.visible().into_iter().map(|(p, c)| (p, c.len())).collect()
}

/// A real (wall-clock) pause, bypassing the simulated `nanosleep`: used only by scenarios that have to
/// wait for a free-running helper thread of the system under test to reach a blocking point.
pub fn real_sleep_ms(ms: u64) {
    let ts = libc::timespec { tv_sec: (ms / 1000) as libc::time_t, tv_nsec: ((ms % 1000) * 1_000_000) as libc::c_long };
    unsafe {
        syscall6(SYS_NANOSLEEP, &ts as *const libc::timespec as i64, 0, 0, 0, 0, 0);
    }
}

// clock -----------------------------------------------------------------------------------------

pub fn advance_ns(ns: u64) {
    CLOCK_NS.fetch_add(ns, Ordering::SeqCst);
}
pub fn now_ns() -> u64 {
    CLOCK_NS.load(Ordering::SeqCst)
}
pub fn set_realtime_skew_ns(ns: u64) {
    REALTIME_SKEW_NS.store(ns, Ordering::SeqCst);
}

const MONO_BASE_S: i64 = 100_000;
const REAL_BASE_S: i64 = 1_767_225_600; // 2026-01-01T00:00:00Z

fn sim_time(clk: c_int) -> (i64, i64) {
    let t = TICKS.try_with(|t| {
        let v = t.get() + 1;
        t.set(v);
        v
    })
    .unwrap_or(0);
    let ns = CLOCK_NS.load(Ordering::SeqCst) + t * 1000;
    let (base, skew) = match clk {
        libc::CLOCK_REALTIME | libc::CLOCK_REALTIME_COARSE => (REAL_BASE_S, REALTIME_SKEW_NS.load(Ordering::SeqCst)),
        _ => (MONO_BASE_S, 0),
    };
    let total = ns + skew;
    (base + (total / 1_000_000_000) as i64, (total % 1_000_000_000) as i64)
}

// entropy ---------------------------------------------------------------------------------------

fn mix(mut z: u64) -> u64 {
    z = z.wrapping_add(0x9E3779B97F4A7C15);
    z = (z ^ (z >> 30)).wrapping_mul(0xBF58476D1CE4E5B9);
    z = (z ^ (z >> 27)).wrapping_mul(0x94D049BB133111EB);
    z ^ (z >> 31)
}

unsafe fn fill_entropy(buf: *mut u8, len: usize) {
    let ord = THREAD_ORD.try_with(Cell::get).unwrap_or(u64::MAX);
    let ctr = ENT_CTR
        .try_with(|c| {
            let v = c.get();
            c.set(v + 1);
            v
        })
        .unwrap_or(0);
    let mut state = mix(SEED.load(Ordering::Relaxed) ^ mix(ord.wrapping_mul(0xA24BAED4963EE407) ^ mix(ctr)));
    let mut i = 0;
    while i < len {
        state = mix(state);
        let b = state.to_le_bytes();
        let n = (len - i).min(8);
        std::ptr::copy_nonoverlapping(b.as_ptr(), buf.add(i), n);
        i += n;
    }
}

pub fn current_thread_ord() -> u64 {
    THREAD_ORD.try_with(Cell::get).unwrap_or(u64::MAX)
}

// ---------------------------------------------------------------------------------------------
// interposed bodies

const O_ACCMODE: c_int = 3;

pub unsafe fn open_impl(dirfd: c_int, path: *const c_char, flags: c_int, mode: c_uint) -> c_int {
    let raw_open = || ret(syscall6(SYS_OPENAT, dirfd as i64, path as i64, flags as i64, mode as i64, 0, 0)) as c_int;
    if !active() {
        return raw_open();
    }
    let _b = BypassGuard::new();
    let p = cstr(path);
    let rel = {
        let mut l = Locked::new();
        l.sys().resolve(dirfd, p)
    };
    let Some(rel) = rel else { return raw_open() };
    let creat = flags & libc::O_CREAT != 0;
    let trunc = flags & libc::O_TRUNC != 0;
    let excl = flags & libc::O_EXCL != 0;
    let mutating = creat || trunc;
    if mutating {
        call_switch_hook("open", &rel);
    }
    let mut l = Locked::new();
    let s = l.sys();
    if s.model.live.dirs.contains(&rel) {
        let fd = raw_open();
        if fd >= 0 {
            s.fds.insert(fd, Fd { ino: None, path: rel, append: false });
        }
        return fd;
    }
    let existing = s.model.live.files.get(&rel).copied();
    match existing {
        Some(ino) => {
            if creat && excl {
                return raw_open();
            }
            let cur_len = s.model.live.inodes.get(&ino).map_or(0, Vec::len);
            if trunc && cur_len > 0 {
                match s.gate("truncate", &rel, 0) {
                    Gate::Ok | Gate::Short(_) => {}
                    Gate::Fail(e) => return fail(e) as c_int,
                    Gate::Crash => return fail(libc::EIO) as c_int,
                }
                s.counters.truncates += 1;
            }
            let fd = raw_open();
            if fd >= 0 {
                if trunc && cur_len > 0 {
                    s.model.log(Op::Truncate { ino, len: 0 });
                }
                s.fds.insert(fd, Fd { ino: Some(ino), path: rel, append: flags & libc::O_APPEND != 0 });
            }
            fd
        }
        None => {
            if !creat || !s.parent_is_dir(&rel) {
                return raw_open();
            }
            match s.gate("create", &rel, 0) {
                Gate::Ok | Gate::Short(_) => {}
                Gate::Fail(e) => return fail(e) as c_int,
                Gate::Crash => return fail(libc::EIO) as c_int,
            }
            let fd = raw_open();
            if fd >= 0 {
                s.counters.creates += 1;
                let ino = s.model.alloc_ino();
                s.model.log(Op::Create { path: rel.clone(), ino });
                s.fds.insert(fd, Fd { ino: Some(ino), path: rel, append: flags & libc::O_APPEND != 0 });
            }
            fd
        }
    }
}

pub unsafe fn close_impl(fd: c_int) -> c_int {
    if active() {
        let _b = BypassGuard::new();
        let mut l = Locked::new();
        l.sys().fds.remove(&fd);
    }
    ret(syscall6(SYS_CLOSE, fd as i64, 0, 0, 0, 0, 0)) as c_int
}

unsafe fn tracked_file(fd: c_int) -> Option<(Ino, String, bool)> {
    let mut l = Locked::new();
    let s = l.sys();
    let f = s.fds.get(&fd)?;
    Some((f.ino?, f.path.clone(), f.append))
}

/// Common write path. `explicit_off`: Some(off) for pwrite.
unsafe fn write_common(fd: c_int, data: &[u8], explicit_off: Option<i64>, raw: &dyn Fn(usize) -> i64) -> ssize_t {
    let Some((ino, path, append)) = tracked_file(fd) else {
        return ret(raw(data.len())) as ssize_t;
    };
    call_switch_hook("write", &path);
    let mut l = Locked::new();
    let s = l.sys();
    let mut count = data.len();
    match s.gate("write", &path, data.len()) {
        Gate::Ok => {}
        Gate::Short(n) => count = n,
        Gate::Fail(e) => return fail(e) as ssize_t,
        Gate::Crash => {
            if s.plan.crash_inflight_write && !data.is_empty() {
                let off = if let Some(o) = explicit_off {
                    o as u64
                } else if append {
                    s.model.live.inodes.get(&ino).map_or(0, Vec::len) as u64
                } else {
                    syscall6(SYS_LSEEK, fd as i64, 0, 1, 0, 0, 0).max(0) as u64
                };
                s.model.pending.push(Op::Write { ino, off, data: data.to_vec() });
            }
            return fail(libc::EIO) as ssize_t;
        }
    }
    let off = if let Some(o) = explicit_off {
        o as u64
    } else if append {
        s.model.live.inodes.get(&ino).map_or(0, Vec::len) as u64
    } else {
        syscall6(SYS_LSEEK, fd as i64, 0, 1, 0, 0, 0).max(0) as u64
    };
    let n = raw(count);
    if n > 0 {
        s.counters.writes += 1;
        s.counters.bytes += n as u64;
        s.model.log(Op::Write { ino, off, data: data[..n as usize].to_vec() });
    }
    ret(n) as ssize_t
}

pub unsafe fn write_impl(fd: c_int, buf: *const c_void, n: size_t) -> ssize_t {
    if !active() {
        return ret(syscall6(SYS_WRITE, fd as i64, buf as i64, n as i64, 0, 0, 0)) as ssize_t;
    }
    let _b = BypassGuard::new();
    let data = std::slice::from_raw_parts(buf as *const u8, n);
    write_common(fd, data, None, &|cnt| syscall6(SYS_WRITE, fd as i64, buf as i64, cnt as i64, 0, 0, 0))
}

pub unsafe fn pwrite_impl(fd: c_int, buf: *const c_void, n: size_t, off: i64) -> ssize_t {
    if !active() {
        return ret(syscall6(SYS_PWRITE64, fd as i64, buf as i64, n as i64, off, 0, 0)) as ssize_t;
    }
    let _b = BypassGuard::new();
    let data = std::slice::from_raw_parts(buf as *const u8, n);
    write_common(fd, data, Some(off), &|cnt| syscall6(SYS_PWRITE64, fd as i64, buf as i64, cnt as i64, off, 0, 0))
}

pub unsafe fn writev_impl(fd: c_int, iov: *const libc::iovec, cnt: c_int) -> ssize_t {
    if !active() {
        return ret(syscall6(SYS_WRITEV, fd as i64, iov as i64, cnt as i64, 0, 0, 0)) as ssize_t;
    }
    let _b = BypassGuard::new();
    if tracked_file(fd).is_none() {
        return ret(syscall6(SYS_WRITEV, fd as i64, iov as i64, cnt as i64, 0, 0, 0)) as ssize_t;
    }
    // gather, then behave like one write()
    let mut data = Vec::new();
    for i in 0..cnt as usize {
        let v = &*iov.add(i);
        data.extend_from_slice(std::slice::from_raw_parts(v.iov_base as *const u8, v.iov_len));
    }
    let p = data.as_ptr();
    write_common(fd, &data, None, &|c| syscall6(SYS_WRITE, fd as i64, p as i64, c as i64, 0, 0, 0))
}

pub unsafe fn fsync_impl(fd: c_int, sysno: i64) -> c_int {
    if !active() {
        return ret(syscall6(sysno, fd as i64, 0, 0, 0, 0, 0)) as c_int;
    }
    let _b = BypassGuard::new();
    let info = {
        let mut l = Locked::new();
        l.sys().fds.get(&fd).map(|f| (f.ino, f.path.clone()))
    };
    let Some((ino, path)) = info else {
        return ret(syscall6(sysno, fd as i64, 0, 0, 0, 0, 0)) as c_int;
    };
    call_switch_hook("fsync", &path);
    let mut l = Locked::new();
    let s = l.sys();
    match s.gate("fsync", &path, 0) {
        Gate::Ok | Gate::Short(_) => {}
        Gate::Fail(e) => return fail(e) as c_int,
        Gate::Crash => return fail(libc::EIO) as c_int,
    }
    s.counters.fsyncs += 1;
    s.model.barrier(ino);
    0
}

pub unsafe fn ftruncate_impl(fd: c_int, len: i64) -> c_int {
    let raw = || ret(syscall6(SYS_FTRUNCATE, fd as i64, len, 0, 0, 0, 0)) as c_int;
    if !active() {
        return raw();
    }
    let _b = BypassGuard::new();
    let Some((ino, path, _)) = tracked_file(fd) else { return raw() };
    call_switch_hook("truncate", &path);
    let mut l = Locked::new();
    let s = l.sys();
    match s.gate("truncate", &path, 0) {
        Gate::Ok | Gate::Short(_) => {}
        Gate::Fail(e) => return fail(e) as c_int,
        Gate::Crash => return fail(libc::EIO) as c_int,
    }
    let r = raw();
    if r == 0 {
        s.counters.truncates += 1;
        s.model.log(Op::Truncate { ino, len: len as u64 });
    }
    r
}

pub unsafe fn rename_impl(olddir: c_int, old: *const c_char, newdir: c_int, new: *const c_char, flags: c_uint) -> c_int {
    let raw = || {
        if flags == 0 {
            ret(syscall6(SYS_RENAMEAT, olddir as i64, old as i64, newdir as i64, new as i64, 0, 0)) as c_int
        } else {
            ret(syscall6(SYS_RENAMEAT2, olddir as i64, old as i64, newdir as i64, new as i64, flags as i64, 0)) as c_int
        }
    };
    if !active() {
        return raw();
    }
    let _b = BypassGuard::new();
    let (a, b) = {
        let mut l = Locked::new();
        let s = l.sys();
        (s.resolve(olddir, cstr(old)), s.resolve(newdir, cstr(new)))
    };
    let (Some(a), Some(b)) = (a.clone(), b.clone()) else {
        if a.is_some() || b.is_some() {
            let mut l = Locked::new();
            l.sys().counters.unmodelled.push(format!("rename across root {:?} -> {:?}", a, b));
        }
        return raw();
    };
    call_switch_hook("rename", &b);
    let mut l = Locked::new();
    let s = l.sys();
    let exists = s.model.live.files.contains_key(&a) || s.model.live.dirs.contains(&a);
    if !exists || flags != 0 {
        if flags != 0 {
            s.counters.unmodelled.push(format!("renameat2 flags={flags} {a} -> {b}"));
        }
        return raw();
    }
    match s.gate("rename", &b, 0) {
        Gate::Ok | Gate::Short(_) => {}
        Gate::Fail(e) => return fail(e) as c_int,
        Gate::Crash => return fail(libc::EIO) as c_int,
    }
    let r = raw();
    if r == 0 {
        s.counters.renames += 1;
        s.model.log(Op::Rename { from: a.clone(), to: b.clone() });
        for f in s.fds.values_mut() {
            if f.path == a {
                f.path = b.clone();
            }
        }
    }
    r
}

pub unsafe fn unlink_impl(dirfd: c_int, path: *const c_char, flags: c_int) -> c_int {
    let raw = || ret(syscall6(SYS_UNLINKAT, dirfd as i64, path as i64, flags as i64, 0, 0, 0)) as c_int;
    if !active() {
        return raw();
    }
    let _b = BypassGuard::new();
    let rel = {
        let mut l = Locked::new();
        l.sys().resolve(dirfd, cstr(path))
    };
    let Some(rel) = rel else { return raw() };
    let rmdir = flags & libc::AT_REMOVEDIR != 0;
    call_switch_hook(if rmdir { "rmdir" } else { "unlink" }, &rel);
    let mut l = Locked::new();
    let s = l.sys();
    let exists = if rmdir { s.model.live.dirs.contains(&rel) } else { s.model.live.files.contains_key(&rel) };
    if !exists {
        return raw();
    }
    match s.gate(if rmdir { "rmdir" } else { "unlink" }, &rel, 0) {
        Gate::Ok | Gate::Short(_) => {}
        Gate::Fail(e) => return fail(e) as c_int,
        Gate::Crash => return fail(libc::EIO) as c_int,
    }
    let r = raw();
    if r == 0 {
        s.counters.unlinks += 1;
        s.model.log(if rmdir { Op::Rmdir { path: rel } } else { Op::Unlink { path: rel } });
    }
    r
}

pub unsafe fn mkdir_impl(dirfd: c_int, path: *const c_char, mode: c_uint) -> c_int {
    let raw = || ret(syscall6(SYS_MKDIRAT, dirfd as i64, path as i64, mode as i64, 0, 0, 0)) as c_int;
    if !active() {
        return raw();
    }
    let _b = BypassGuard::new();
    let rel = {
        let mut l = Locked::new();
        l.sys().resolve(dirfd, cstr(path))
    };
    let Some(rel) = rel else { return raw() };
    let mut l = Locked::new();
    let s = l.sys();
    if s.model.live.dirs.contains(&rel) || s.model.live.files.contains_key(&rel) || !s.parent_is_dir(&rel) {
        return raw();
    }
    drop(l);
    call_switch_hook("mkdir", &rel);
    let mut l = Locked::new();
    let s = l.sys();
    match s.gate("mkdir", &rel, 0) {
        Gate::Ok | Gate::Short(_) => {}
        Gate::Fail(e) => return fail(e) as c_int,
        Gate::Crash => return fail(libc::EIO) as c_int,
    }
    let r = raw();
    if r == 0 {
        s.counters.mkdirs += 1;
        s.model.log(Op::Mkdir { path: rel });
    }
    r
}

/// Calls we do not model: if they touch the tracked root the audit reports a harness error.
pub unsafe fn unmodelled(name: &str, p1: *const c_char, p2: *const c_char) {
    if !active() {
        return;
    }
    let _b = BypassGuard::new();
    let mut l = Locked::new();
    let s = l.sys();
    for p in [p1, p2] {
        if !p.is_null() {
            if let Some(r) = s.rel(cstr(p)) {
                s.counters.unmodelled.push(format!("{name} {r}"));
            }
        }
    }
}

pub unsafe fn note_unmodelled_fd(name: &str, fd: c_int) {
    if !active() {
        return;
    }
    let _b = BypassGuard::new();
    let mut l = Locked::new();
    let s = l.sys();
    if let Some(f) = s.fds.get(&fd) {
        let p = f.path.clone();
        s.counters.unmodelled.push(format!("{name} fd->{p}"));
    }
}

pub unsafe fn clock_gettime_impl(clk: c_int, ts: *mut libc::timespec) -> c_int {
    if !ENABLED.load(Ordering::Relaxed) {
        return ret(syscall6(SYS_CLOCK_GETTIME, clk as i64, ts as i64, 0, 0, 0, 0)) as c_int;
    }
    match clk {
        libc::CLOCK_THREAD_CPUTIME_ID | libc::CLOCK_PROCESS_CPUTIME_ID => {
            return ret(syscall6(SYS_CLOCK_GETTIME, clk as i64, ts as i64, 0, 0, 0, 0)) as c_int
        }
        _ => {}
    }
    let (s, ns) = sim_time(clk);
    (*ts).tv_sec = s;
    (*ts).tv_nsec = ns;
    0
}

pub unsafe fn gettimeofday_impl(tv: *mut libc::timeval) -> c_int {
    if !ENABLED.load(Ordering::Relaxed) {
        return ret(syscall6(SYS_GETTIMEOFDAY, tv as i64, 0, 0, 0, 0, 0)) as c_int;
    }
    if !tv.is_null() {
        let (s, ns) = sim_time(libc::CLOCK_REALTIME);
        (*tv).tv_sec = s;
        (*tv).tv_usec = ns / 1000;
    }
    0
}

pub unsafe fn time_impl(t: *mut libc::time_t) -> libc::time_t {
    if !ENABLED.load(Ordering::Relaxed) {
        return syscall6(SYS_TIME, t as i64, 0, 0, 0, 0, 0);
    }
    let (s, _) = sim_time(libc::CLOCK_REALTIME);
    if !t.is_null() {
        *t = s;
    }
    s
}

/// Sleeping advances simulated time by the requested amount and yields the CPU once.
pub unsafe fn nanosleep_impl(req: *const libc::timespec) -> c_int {
    if !ENABLED.load(Ordering::Relaxed) {
        return ret(syscall6(SYS_NANOSLEEP, req as i64, 0, 0, 0, 0, 0)) as c_int;
    }
    if !req.is_null() {
        let ns = (*req).tv_sec as u64 * 1_000_000_000 + (*req).tv_nsec as u64;
        advance_ns(ns);
    }
    syscall6(SYS_SCHED_YIELD, 0, 0, 0, 0, 0, 0);
    0
}

pub unsafe fn getrandom_impl(buf: *mut c_void, len: size_t, flags: c_uint) -> ssize_t {
    if !ENABLED.load(Ordering::Relaxed) {
        return ret(syscall6(SYS_GETRANDOM, buf as i64, len as i64, flags as i64, 0, 0, 0)) as ssize_t;
    }
    fill_entropy(buf as *mut u8, len);
    len as ssize_t
}

pub unsafe fn syscall_impl(num: c_long, a1: c_long, a2: c_long, a3: c_long, a4: c_long, a5: c_long, a6: c_long) -> c_long {
    if num == SYS_GETRANDOM && ENABLED.load(Ordering::Relaxed) {
        fill_entropy(a1 as *mut u8, a2 as usize);
        return a2;
    }
    ret(syscall6(num, a1, a2, a3, a4, a5, a6))
}

// thread ordinals via pthread_create ----------------------------------------------------------------

type StartFn = extern "C" fn(*mut c_void) -> *mut c_void;
struct Tramp {
    ord: u64,
    start: StartFn,
    arg: *mut c_void,
}
extern "C" fn trampoline(p: *mut c_void) -> *mut c_void {
    let t = unsafe { Box::from_raw(p as *mut Tramp) };
    let _ = THREAD_ORD.try_with(|o| o.set(t.ord));
    (t.start)(t.arg)
}

type PthreadCreate =
    unsafe extern "C" fn(*mut libc::pthread_t, *const libc::pthread_attr_t, StartFn, *mut c_void) -> c_int;
static REAL_PTHREAD_CREATE: AtomicPtr<c_void> = AtomicPtr::new(std::ptr::null_mut());

pub unsafe fn pthread_create_impl(
    th: *mut libc::pthread_t,
    attr: *const libc::pthread_attr_t,
    start: StartFn,
    arg: *mut c_void,
) -> c_int {
    let mut real = REAL_PTHREAD_CREATE.load(Ordering::Relaxed);
    if real.is_null() {
        real = libc::dlsym(libc::RTLD_NEXT, b"pthread_create\0".as_ptr() as *const c_char);
        if real.is_null() {
            libc::abort();
        }
        REAL_PTHREAD_CREATE.store(real, Ordering::Relaxed);
    }
    let real: PthreadCreate = std::mem::transmute(real);
    let ord = NEXT_ORD.fetch_add(1, Ordering::SeqCst);
    let t = Box::into_raw(Box::new(Tramp { ord, start, arg }));
    let r = real(th, attr, trampoline, t as *mut c_void);
    if r != 0 {
        drop(Box::from_raw(t));
    }
    r
}

pub fn reset_thread_ordinals() {
    NEXT_ORD.store(1, Ordering::SeqCst);
    let _ = THREAD_ORD.try_with(|o| o.set(0));
    let _ = ENT_CTR.try_with(|c| c.set(0));
    let _ = TICKS.try_with(|c| c.set(0));
}
