//! simsys: the libc seam (file system, fsync, clock, entropy) and the simulated disk.
//! See /verif/DESIGN.md §2.1, §3, §4.

pub mod disk;
pub mod raw;
pub mod sys;

pub use disk::{DataKeep, DiskModel, Image, ImageStats, Op, Tree};
pub use sys::*;

/// Expand in the *binary* crate: the symbols must live in the executable's own object files so
/// that they win static symbol resolution over libc.so for every caller in the process
/// (std, parquet, chrono, uuid, rand, getrandom, ...).
#[macro_export]
macro_rules! interpose {
    () => {
        mod __simsys_interposed {
            use $crate::libc::{c_char, c_int, c_long, c_uint, c_void, size_t, ssize_t};
            use $crate::raw::*;
            use $crate::sys as s;

            #[no_mangle]
            pub unsafe extern "C" fn open64(p: *const c_char, flags: c_int, mode: c_uint) -> c_int {
                s::open_impl(AT_FDCWD as c_int, p, flags, mode)
            }
            #[no_mangle]
            pub unsafe extern "C" fn open(p: *const c_char, flags: c_int, mode: c_uint) -> c_int {
                s::open_impl(AT_FDCWD as c_int, p, flags, mode)
            }
            #[no_mangle]
            pub unsafe extern "C" fn openat(d: c_int, p: *const c_char, flags: c_int, mode: c_uint) -> c_int {
                s::open_impl(d, p, flags, mode)
            }
            #[no_mangle]
            pub unsafe extern "C" fn openat64(d: c_int, p: *const c_char, flags: c_int, mode: c_uint) -> c_int {
                s::open_impl(d, p, flags, mode)
            }
            #[no_mangle]
            pub unsafe extern "C" fn creat(p: *const c_char, mode: c_uint) -> c_int {
                s::open_impl(AT_FDCWD as c_int, p, $crate::libc::O_CREAT | $crate::libc::O_WRONLY | $crate::libc::O_TRUNC, mode)
            }
            #[no_mangle]
            pub unsafe extern "C" fn creat64(p: *const c_char, mode: c_uint) -> c_int {
                creat(p, mode)
            }
            #[no_mangle]
            pub unsafe extern "C" fn close(fd: c_int) -> c_int {
                s::close_impl(fd)
            }
            #[no_mangle]
            pub unsafe extern "C" fn write(fd: c_int, b: *const c_void, n: size_t) -> ssize_t {
                s::write_impl(fd, b, n)
            }
            #[no_mangle]
            pub unsafe extern "C" fn pwrite64(fd: c_int, b: *const c_void, n: size_t, off: i64) -> ssize_t {
                s::pwrite_impl(fd, b, n, off)
            }
            #[no_mangle]
            pub unsafe extern "C" fn pwrite(fd: c_int, b: *const c_void, n: size_t, off: i64) -> ssize_t {
                s::pwrite_impl(fd, b, n, off)
            }
            #[no_mangle]
            pub unsafe extern "C" fn writev(fd: c_int, iov: *const $crate::libc::iovec, cnt: c_int) -> ssize_t {
                s::writev_impl(fd, iov, cnt)
            }
            #[no_mangle]
            pub unsafe extern "C" fn pwritev(fd: c_int, iov: *const $crate::libc::iovec, cnt: c_int, off: i64) -> ssize_t {
                s::note_unmodelled_fd("pwritev", fd);
                ret(syscall6(296, fd as i64, iov as i64, cnt as i64, off, 0, 0)) as ssize_t
            }
            #[no_mangle]
            pub unsafe extern "C" fn fsync(fd: c_int) -> c_int {
                s::fsync_impl(fd, SYS_FSYNC)
            }
            #[no_mangle]
            pub unsafe extern "C" fn fdatasync(fd: c_int) -> c_int {
                s::fsync_impl(fd, SYS_FDATASYNC)
            }
            #[no_mangle]
            pub unsafe extern "C" fn sync_file_range(fd: c_int, a: i64, b: i64, f: c_uint) -> c_int {
                s::note_unmodelled_fd("sync_file_range", fd);
                ret(syscall6(SYS_SYNC_FILE_RANGE, fd as i64, a, b, f as i64, 0, 0)) as c_int
            }
            #[no_mangle]
            pub unsafe extern "C" fn ftruncate64(fd: c_int, len: i64) -> c_int {
                s::ftruncate_impl(fd, len)
            }
            #[no_mangle]
            pub unsafe extern "C" fn ftruncate(fd: c_int, len: i64) -> c_int {
                s::ftruncate_impl(fd, len)
            }
            #[no_mangle]
            pub unsafe extern "C" fn rename(a: *const c_char, b: *const c_char) -> c_int {
                s::rename_impl(AT_FDCWD as c_int, a, AT_FDCWD as c_int, b, 0)
            }
            #[no_mangle]
            pub unsafe extern "C" fn renameat(ad: c_int, a: *const c_char, bd: c_int, b: *const c_char) -> c_int {
                s::rename_impl(ad, a, bd, b, 0)
            }
            #[no_mangle]
            pub unsafe extern "C" fn renameat2(ad: c_int, a: *const c_char, bd: c_int, b: *const c_char, f: c_uint) -> c_int {
                s::rename_impl(ad, a, bd, b, f)
            }
            #[no_mangle]
            pub unsafe extern "C" fn unlink(p: *const c_char) -> c_int {
                s::unlink_impl(AT_FDCWD as c_int, p, 0)
            }
            #[no_mangle]
            pub unsafe extern "C" fn unlinkat(d: c_int, p: *const c_char, flags: c_int) -> c_int {
                s::unlink_impl(d, p, flags)
            }
            #[no_mangle]
            pub unsafe extern "C" fn rmdir(p: *const c_char) -> c_int {
                s::unlink_impl(AT_FDCWD as c_int, p, $crate::libc::AT_REMOVEDIR)
            }
            #[no_mangle]
            pub unsafe extern "C" fn mkdir(p: *const c_char, mode: c_uint) -> c_int {
                s::mkdir_impl(AT_FDCWD as c_int, p, mode)
            }
            #[no_mangle]
            pub unsafe extern "C" fn mkdirat(d: c_int, p: *const c_char, mode: c_uint) -> c_int {
                s::mkdir_impl(d, p, mode)
            }
            #[no_mangle]
            pub unsafe extern "C" fn link(a: *const c_char, b: *const c_char) -> c_int {
                s::unmodelled("link", a, b);
                ret(syscall6(SYS_LINK, a as i64, b as i64, 0, 0, 0, 0)) as c_int
            }
            #[no_mangle]
            pub unsafe extern "C" fn linkat(ad: c_int, a: *const c_char, bd: c_int, b: *const c_char, f: c_int) -> c_int {
                s::unmodelled("linkat", a, b);
                ret(syscall6(SYS_LINKAT, ad as i64, a as i64, bd as i64, b as i64, f as i64, 0)) as c_int
            }
            #[no_mangle]
            pub unsafe extern "C" fn symlink(a: *const c_char, b: *const c_char) -> c_int {
                s::unmodelled("symlink", std::ptr::null(), b);
                ret(syscall6(SYS_SYMLINK, a as i64, b as i64, 0, 0, 0, 0)) as c_int
            }
            #[no_mangle]
            pub unsafe extern "C" fn copy_file_range(fi: c_int, oi: *mut i64, fo: c_int, oo: *mut i64, len: size_t, fl: c_uint) -> ssize_t {
                s::note_unmodelled_fd("copy_file_range", fo);
                ret(syscall6(SYS_COPY_FILE_RANGE, fi as i64, oi as i64, fo as i64, oo as i64, len as i64, fl as i64)) as ssize_t
            }
            #[no_mangle]
            pub unsafe extern "C" fn clock_gettime(clk: c_int, ts: *mut $crate::libc::timespec) -> c_int {
                s::clock_gettime_impl(clk, ts)
            }
            #[no_mangle]
            pub unsafe extern "C" fn gettimeofday(tv: *mut $crate::libc::timeval, _tz: *mut c_void) -> c_int {
                s::gettimeofday_impl(tv)
            }
            #[no_mangle]
            pub unsafe extern "C" fn time(t: *mut $crate::libc::time_t) -> $crate::libc::time_t {
                s::time_impl(t)
            }
            #[no_mangle]
            pub unsafe extern "C" fn nanosleep(req: *const $crate::libc::timespec, _rem: *mut $crate::libc::timespec) -> c_int {
                s::nanosleep_impl(req)
            }
            #[no_mangle]
            pub unsafe extern "C" fn clock_nanosleep(clk: c_int, flags: c_int, req: *const $crate::libc::timespec, rem: *mut $crate::libc::timespec) -> c_int {
                if !s::ENABLED.load(std::sync::atomic::Ordering::Relaxed) {
                    return (-syscall6(SYS_CLOCK_NANOSLEEP, clk as i64, flags as i64, req as i64, rem as i64, 0, 0)) as c_int;
                }
                if flags & 1 != 0 {
                    // TIMER_ABSTIME: advance to the requested instant if it is in the future
                    let mut now: $crate::libc::timespec = std::mem::zeroed();
                    s::clock_gettime_impl(clk, &mut now);
                    let want = (*req).tv_sec as i128 * 1_000_000_000 + (*req).tv_nsec as i128;
                    let have = now.tv_sec as i128 * 1_000_000_000 + now.tv_nsec as i128;
                    if want > have {
                        s::advance_ns((want - have) as u64);
                    }
                    syscall6(SYS_SCHED_YIELD, 0, 0, 0, 0, 0, 0);
                    0
                } else {
                    s::nanosleep_impl(req)
                }
            }
            #[no_mangle]
            pub unsafe extern "C" fn getrandom(buf: *mut c_void, len: size_t, flags: c_uint) -> ssize_t {
                s::getrandom_impl(buf, len, flags)
            }
            #[no_mangle]
            pub unsafe extern "C" fn getentropy(buf: *mut c_void, len: size_t) -> c_int {
                s::getrandom_impl(buf, len, 0);
                0
            }
            #[no_mangle]
            pub unsafe extern "C" fn syscall(n: c_long, a1: c_long, a2: c_long, a3: c_long, a4: c_long, a5: c_long, a6: c_long) -> c_long {
                s::syscall_impl(n, a1, a2, a3, a4, a5, a6)
            }
            #[no_mangle]
            pub unsafe extern "C" fn pthread_create(
                th: *mut $crate::libc::pthread_t,
                attr: *const $crate::libc::pthread_attr_t,
                start: extern "C" fn(*mut c_void) -> *mut c_void,
                arg: *mut c_void,
            ) -> c_int {
                s::pthread_create_impl(th, attr, start, arg)
            }
        }
    };
}

pub use libc;
