//! DiskModel: what survives a crash.
//!
//! The kernel tmpfs directory is the page-cache view of the running process. This model keeps,
//! beside it, a *durable* tree plus the ordered list of mutations that are not yet durable, and
//! computes crash images from them (DESIGN.md §3).
//!
//! Persistence rule (ordered journal + delayed allocation, ext4/xfs-like):
//!  * any barrier (fsync/fdatasync of a file, fsync of a directory) makes every earlier
//!    *namespace* operation durable, in order;
//!  * it makes durable the *data* of the file it was called on only;
//!  * at a crash the image is `durable ⊕ prefix of pending namespace ops ⊕ per-file prefix of the
//!    pending writes`, the last kept write optionally cut at a 512-byte aligned file offset.
//!
//! Pure data structure: no I/O, no clocks, no hashing with random state.

use std::collections::{BTreeMap, BTreeSet};

pub type Ino = u64;

#[derive(Clone, Debug, PartialEq, Eq)]
pub enum Op {
    Create { path: String, ino: Ino },
    Mkdir { path: String },
    Rmdir { path: String },
    Unlink { path: String },
    Rename { from: String, to: String },
    Truncate { ino: Ino, len: u64 },
    Write { ino: Ino, off: u64, data: Vec<u8> },
}

impl Op {
    pub fn is_ns(&self) -> bool {
        !matches!(self, Op::Write { .. })
    }
    pub fn kind(&self) -> &'static str {
        match self {
            Op::Create { .. } => "create",
            Op::Mkdir { .. } => "mkdir",
            Op::Rmdir { .. } => "rmdir",
            Op::Unlink { .. } => "unlink",
            Op::Rename { .. } => "rename",
            Op::Truncate { .. } => "truncate",
            Op::Write { .. } => "write",
        }
    }
}

#[derive(Clone, Debug, Default, PartialEq, Eq)]
pub struct Tree {
    pub dirs: BTreeSet<String>,
    pub files: BTreeMap<String, Ino>,
    pub inodes: BTreeMap<Ino, Vec<u8>>,
}

fn is_under(path: &str, dir: &str) -> bool {
    path.len() > dir.len() && path.starts_with(dir) && path.as_bytes()[dir.len()] == b'/'
}

impl Tree {
    pub fn apply(&mut self, op: &Op) {
        match op {
            Op::Create { path, ino } => {
                self.files.insert(path.clone(), *ino);
                self.inodes.entry(*ino).or_default();
            }
            Op::Mkdir { path } => {
                self.dirs.insert(path.clone());
            }
            Op::Rmdir { path } => {
                self.dirs.remove(path);
            }
            Op::Unlink { path } => {
                self.files.remove(path);
            }
            Op::Rename { from, to } => {
                if let Some(ino) = self.files.remove(from) {
                    self.files.insert(to.clone(), ino);
                } else if self.dirs.contains(from) {
                    // directory rename: move the whole subtree
                    let dirs: Vec<String> = self
                        .dirs
                        .iter()
                        .filter(|d| *d == from || is_under(d, from))
                        .cloned()
                        .collect();
                    for d in dirs {
                        self.dirs.remove(&d);
                        self.dirs.insert(format!("{}{}", to, &d[from.len()..]));
                    }
                    let files: Vec<(String, Ino)> = self
                        .files
                        .iter()
                        .filter(|(f, _)| is_under(f, from))
                        .map(|(f, i)| (f.clone(), *i))
                        .collect();
                    for (f, i) in files {
                        self.files.remove(&f);
                        self.files.insert(format!("{}{}", to, &f[from.len()..]), i);
                    }
                }
            }
            Op::Truncate { ino, len } => {
                if let Some(c) = self.inodes.get_mut(ino) {
                    c.resize(*len as usize, 0);
                }
            }
            Op::Write { ino, off, data } => {
                if let Some(c) = self.inodes.get_mut(ino) {
                    let end = *off as usize + data.len();
                    if c.len() < end {
                        c.resize(end, 0);
                    }
                    c[*off as usize..end].copy_from_slice(data);
                }
            }
        }
    }

    /// Visible files with their contents (inodes that no path references are dropped).
    pub fn visible(&self) -> BTreeMap<String, Vec<u8>> {
        self.files
            .iter()
            .map(|(p, i)| (p.clone(), self.inodes.get(i).cloned().unwrap_or_default()))
            .collect()
    }

    pub fn gc(&mut self) {
        let live: BTreeSet<Ino> = self.files.values().copied().collect();
        self.inodes.retain(|i, _| live.contains(i));
    }

    /// Stable 64-bit shape hash (paths + lengths), for the distinct-state measure.
    pub fn shape_hash(&self) -> u64 {
        let mut h: u64 = 0xcbf29ce484222325;
        let mut feed = |b: &[u8]| {
            for x in b {
                h ^= *x as u64;
                h = h.wrapping_mul(0x100000001b3);
            }
        };
        for d in &self.dirs {
            feed(d.as_bytes());
            feed(b"/");
        }
        for (p, i) in &self.files {
            feed(p.as_bytes());
            let l = self.inodes.get(i).map_or(0, Vec::len) as u64;
            feed(&l.to_le_bytes());
        }
        h
    }
}

/// How much of the pending (non-durable) state a crash image keeps.
#[derive(Clone, Debug, PartialEq, Eq)]
pub enum Image {
    /// process kill: nothing is lost
    L0,
    /// power loss: keep the first `ns_keep` pending namespace ops; data per `data`
    L1 { ns_keep: usize, data: DataKeep },
}

#[derive(Clone, Debug, PartialEq, Eq)]
pub enum DataKeep {
    All,
    None,
    /// per-inode prefix drawn from this PRNG seed, last kept write possibly torn
    Random(u64),
}

fn splitmix(x: &mut u64) -> u64 {
    *x = x.wrapping_add(0x9E3779B97F4A7C15);
    let mut z = *x;
    z = (z ^ (z >> 30)).wrapping_mul(0xBF58476D1CE4E5B9);
    z = (z ^ (z >> 27)).wrapping_mul(0x94D049BB133111EB);
    z ^ (z >> 31)
}

#[derive(Clone, Debug, Default)]
pub struct ImageStats {
    pub ns_dropped: usize,
    pub writes_dropped: usize,
    pub torn: usize,
    pub files_lost: usize,
}

#[derive(Clone, Debug, Default)]
pub struct DiskModel {
    pub durable: Tree,
    pub pending: Vec<Op>,
    pub live: Tree,
    next_ino: Ino,
    pub barriers: u64,
}

impl DiskModel {
    pub fn new() -> Self {
        let mut m = DiskModel::default();
        m.next_ino = 1;
        m.durable.dirs.insert(String::new());
        m.live.dirs.insert(String::new());
        m
    }

    pub fn from_tree(t: Tree) -> Self {
        let next = t.inodes.keys().max().copied().unwrap_or(0) + 1;
        DiskModel { durable: t.clone(), pending: Vec::new(), live: t, next_ino: next, barriers: 0 }
    }

    pub fn alloc_ino(&mut self) -> Ino {
        let i = self.next_ino;
        self.next_ino += 1;
        i
    }

    pub fn log(&mut self, op: Op) {
        self.live.apply(&op);
        self.pending.push(op);
    }

    pub fn pending_ns(&self) -> usize {
        self.pending.iter().filter(|o| o.is_ns()).count()
    }

    /// A barrier on file `ino` (None = directory fsync).
    pub fn barrier(&mut self, ino: Option<Ino>) {
        self.barriers += 1;
        // position of the last pending Truncate/Create per inode: writes before it are superseded
        let mut last_meta: BTreeMap<Ino, usize> = BTreeMap::new();
        for (idx, op) in self.pending.iter().enumerate() {
            match op {
                Op::Truncate { ino, .. } | Op::Create { ino, .. } => {
                    last_meta.insert(*ino, idx);
                }
                _ => {}
            }
        }
        let old = std::mem::take(&mut self.pending);
        for (idx, op) in old.into_iter().enumerate() {
            match &op {
                Op::Write { ino: w, .. } => {
                    let superseded = last_meta.get(w).is_some_and(|&p| p > idx);
                    if Some(*w) == ino || superseded {
                        self.durable.apply(&op);
                    } else {
                        self.pending.push(op);
                    }
                }
                _ => self.durable.apply(&op),
            }
        }
    }

    /// Compute a crash image.
    pub fn image(&self, choice: &Image) -> (Tree, ImageStats) {
        let mut st = ImageStats::default();
        let mut t = self.durable.clone();
        match choice {
            Image::L0 => {
                for op in &self.pending {
                    t.apply(op);
                }
            }
            Image::L1 { ns_keep, data } => {
                // per-inode budgets
                let mut n_writes: BTreeMap<Ino, usize> = BTreeMap::new();
                for op in &self.pending {
                    if let Op::Write { ino, .. } = op {
                        *n_writes.entry(*ino).or_default() += 1;
                    }
                }
                let mut budget: BTreeMap<Ino, (usize, bool)> = BTreeMap::new();
                let mut rng = match data {
                    DataKeep::Random(s) => *s,
                    _ => 0,
                };
                for (ino, n) in &n_writes {
                    let b = match data {
                        DataKeep::All => (*n, false),
                        DataKeep::None => (0, false),
                        DataKeep::Random(_) => {
                            let k = (splitmix(&mut rng) % (*n as u64 + 1)) as usize;
                            let torn = k < *n && splitmix(&mut rng) % 2 == 0;
                            (k, torn)
                        }
                    };
                    budget.insert(*ino, b);
                }
                let mut blocked: BTreeSet<Ino> = BTreeSet::new();
                let mut seen: BTreeMap<Ino, usize> = BTreeMap::new();
                let mut ns_seen = 0usize;
                for op in &self.pending {
                    if op.is_ns() {
                        if ns_seen < *ns_keep {
                            t.apply(op);
                        } else {
                            st.ns_dropped += 1;
                            match op {
                                Op::Create { ino, .. } => {
                                    blocked.insert(*ino);
                                    st.files_lost += 1;
                                }
                                Op::Truncate { ino, .. } => {
                                    blocked.insert(*ino);
                                }
                                _ => {}
                            }
                        }
                        ns_seen += 1;
                    } else if let Op::Write { ino, off, data: bytes } = op {
                        let k = seen.entry(*ino).or_default();
                        let (b, torn) = budget.get(ino).copied().unwrap_or((0, false));
                        if blocked.contains(ino) {
                            st.writes_dropped += 1;
                        } else if *k < b {
                            t.apply(op);
                        } else if *k == b && torn {
                            // cut at a 512-byte aligned file offset strictly inside the write
                            let start = *off;
                            let end = *off + bytes.len() as u64;
                            let first_cut = (start / 512 + 1) * 512;
                            if first_cut < end {
                                let ncuts = (end - 1 - first_cut) / 512 + 1;
                                let cut = first_cut + (splitmix(&mut rng) % ncuts) * 512;
                                let keep = (cut - start) as usize;
                                t.apply(&Op::Write { ino: *ino, off: *off, data: bytes[..keep].to_vec() });
                                st.torn += 1;
                            } else {
                                st.writes_dropped += 1;
                            }
                        } else {
                            st.writes_dropped += 1;
                        }
                        *k += 1;
                    }
                }
            }
        }
        t.gc();
        (t, st)
    }

    /// Reset after a crash: the chosen image becomes the durable and the live state.
    pub fn reset_to(&mut self, t: Tree) {
        let next = self.next_ino.max(t.inodes.keys().max().copied().unwrap_or(0) + 1);
        self.durable = t.clone();
        self.live = t;
        self.pending.clear();
        self.next_ino = next;
    }
}

#[cfg(test)]
mod tests {
    use super::*;

    fn w(ino: Ino, off: u64, s: &str) -> Op {
        Op::Write { ino, off, data: s.as_bytes().to_vec() }
    }

    #[test]
    fn unsynced_file_disappears_under_l1_none() {
        let mut m = DiskModel::new();
        let i = m.alloc_ino();
        m.log(Op::Create { path: "a".into(), ino: i });
        m.log(w(i, 0, "hello"));
        let (t, _) = m.image(&Image::L0);
        assert_eq!(t.visible()["a"], b"hello");
        let (t, st) = m.image(&Image::L1 { ns_keep: 0, data: DataKeep::All });
        assert!(t.visible().is_empty());
        assert_eq!(st.files_lost, 1);
        let (t, _) = m.image(&Image::L1 { ns_keep: 1, data: DataKeep::None });
        assert_eq!(t.visible()["a"], b"");
    }

    #[test]
    fn fsync_makes_own_data_and_all_ns_durable() {
        let mut m = DiskModel::new();
        let a = m.alloc_ino();
        let b = m.alloc_ino();
        m.log(Op::Create { path: "a".into(), ino: a });
        m.log(w(a, 0, "A"));
        m.log(Op::Create { path: "b".into(), ino: b });
        m.log(w(b, 0, "B"));
        m.barrier(Some(a));
        let (t, _) = m.image(&Image::L1 { ns_keep: 0, data: DataKeep::None });
        let v = t.visible();
        assert_eq!(v["a"], b"A");
        assert_eq!(v["b"], b""); // created durably (ordered journal) but data not flushed
    }

    #[test]
    fn rename_without_data_sync_gives_empty_target() {
        let mut m = DiskModel::new();
        let old = m.alloc_ino();
        m.log(Op::Create { path: "f".into(), ino: old });
        m.log(w(old, 0, "old"));
        m.barrier(Some(old));
        let tmp = m.alloc_ino();
        m.log(Op::Create { path: "f.tmp".into(), ino: tmp });
        m.log(w(tmp, 0, "new"));
        m.log(Op::Rename { from: "f.tmp".into(), to: "f".into() });
        let (t, _) = m.image(&Image::L1 { ns_keep: 2, data: DataKeep::None });
        assert_eq!(t.visible()["f"], b"");
        let (t, _) = m.image(&Image::L1 { ns_keep: 1, data: DataKeep::All });
        assert_eq!(t.visible()["f"], b"old");
        assert_eq!(t.visible()["f.tmp"], b"new");
    }

    #[test]
    fn truncate_then_write_window() {
        let mut m = DiskModel::new();
        let i = m.alloc_ino();
        m.log(Op::Create { path: "c".into(), ino: i });
        m.log(w(i, 0, "{\"old\":1}"));
        m.barrier(Some(i));
        m.log(Op::Truncate { ino: i, len: 0 });
        let (t, _) = m.image(&Image::L0);
        assert_eq!(t.visible()["c"], b"");
        m.log(w(i, 0, "{\"new\":2}"));
        // truncate dropped => the write after it is dropped too: old content
        let (t, _) = m.image(&Image::L1 { ns_keep: 0, data: DataKeep::All });
        assert_eq!(t.visible()["c"], b"{\"old\":1}");
    }

    #[test]
    fn superseded_writes_fold_on_barrier() {
        let mut m = DiskModel::new();
        let j = m.alloc_ino();
        let i = m.alloc_ino();
        m.log(Op::Create { path: "j".into(), ino: j });
        m.log(Op::Create { path: "i".into(), ino: i });
        m.log(w(j, 0, "abc"));
        m.log(Op::Truncate { ino: j, len: 0 });
        m.log(w(j, 0, "xy"));
        m.barrier(Some(i));
        assert_eq!(m.pending.len(), 1);
        let (t, _) = m.image(&Image::L1 { ns_keep: 0, data: DataKeep::None });
        assert_eq!(t.visible()["j"], b"");
    }

    #[test]
    fn torn_write_cut_is_512_aligned() {
        let mut m = DiskModel::new();
        let i = m.alloc_ino();
        m.log(Op::Create { path: "w".into(), ino: i });
        m.barrier(None);
        m.log(Op::Write { ino: i, off: 0, data: vec![7u8; 2000] });
        let mut saw_torn = false;
        for s in 0..64 {
            let (t, st) = m.image(&Image::L1 { ns_keep: 0, data: DataKeep::Random(s) });
            let l = t.visible()["w"].len();
            assert!(l == 0 || l == 2000 || l % 512 == 0, "len {l}");
            if st.torn > 0 {
                saw_torn = true;
                assert!(l > 0 && l < 2000);
            }
        }
        assert!(saw_torn);
    }

    #[test]
    fn dir_rename_moves_subtree() {
        let mut t = Tree::default();
        t.apply(&Op::Mkdir { path: "a".into() });
        t.apply(&Op::Mkdir { path: "ab".into() });
        t.apply(&Op::Create { path: "a/x".into(), ino: 1 });
        t.apply(&Op::Create { path: "ab/y".into(), ino: 2 });
        t.apply(&Op::Rename { from: "a".into(), to: "z".into() });
        assert!(t.files.contains_key("z/x"));
        assert!(t.files.contains_key("ab/y"));
        assert!(t.dirs.contains("z") && t.dirs.contains("ab") && !t.dirs.contains("a"));
    }
}
