//! HSC: Handler-level scenarios on one simulated client thread at a time (DESIGN.md §8 C10a, C32,
//! C33, C18, C04). Actors (stateless clients, WebSocket-style sessions, the session reaper on the
//! simulated clock, restarts) are interleaved at request granularity by the generated op list.
//! Query answers are checked against a *fresh evaluation*: a pristine Handler loaded from the
//! reference model (persistent facts/rules plus the asking session's own facts/rules).

use crate::dur::{make_config, observe, root_dir, EngineCfg, Failure, FsCounters};
use crate::model::{Obs, StoreModel};
use crate::values::{fnv64, to_tuple, T, V};
use inputlayer::protocol::handler::Handler;
use inputlayer::session::SessionConfig;
use inputlayer::StorageEngine;
use serde::{Deserialize, Serialize};
use std::collections::{BTreeMap, BTreeSet};

#[derive(Clone, Debug, Serialize, Deserialize, PartialEq)]
#[serde(tag = "e", rename_all = "snake_case")]
pub enum Effect {
    None,
    Insert { rel: String, tuples: Vec<T> },
    Delete { rel: String, tuples: Vec<T> },
    /// delete every tuple of `rel` whose column `col` satisfies `cmp k`
    CondDelete { rel: String, col: usize, cmp: String, k: i64 },
    /// `-rel(X, X) <- rel(X, X)`: delete every tuple whose two columns are equal
    CondDeleteDiag { rel: String },
    /// for every tuple matching the condition: delete it and insert the same tuple with column 1 + add
    Update { rel: String, col: usize, cmp: String, k: i64, add: i64, #[serde(default)] set_to: Option<i64> },
    Rule { name: String, text: String },
    DropRule { name: String },
    ClearRule { name: String },
    /// 1-based clause index as in `.rule remove <name> <index>`
    RemoveClause { name: String, index: usize },
    /// persistent schema declaration (column types as schema type names)
    Schema { rel: String, cols: Vec<(String, String)> },
    /// request-local ("session") schema declaration: must not influence persistent state
    SessionSchema { rel: String, cols: Vec<(String, String)> },
    CreateKg { name: String },
    DropKg { name: String },
}

/// what a program sent over a session means for that session's own (ephemeral) state
#[derive(Clone, Debug, Serialize, Deserialize, PartialEq, Default)]
#[serde(tag = "s", rename_all = "snake_case")]
pub enum SEffect {
    #[default]
    None,
    /// `.kg use <kg>`: the session moves to another graph and loses its ephemeral state
    SwitchKg { kg: String },
    /// `.session drop <n>` (1-based)
    DropRuleIndex { index: usize },
    /// `.session drop <head name>`
    DropRuleName { name: String },
    /// a fact statement without `+` sent over the session
    AddFact { rel: String, tuple: T },
    /// a rule statement without `+` sent over the session
    AddRule { text: String },
}

#[derive(Clone, Debug, Serialize, Deserialize, PartialEq)]
#[serde(tag = "op", rename_all = "snake_case")]
pub enum HOp {
    /// stateless request that changes persistent state; `effect` is its meaning for the model
    Program { kg: String, text: String, effect: Effect },
    /// stateless query (persistent data + persistent rules), answer checked by fresh evaluation
    Query { kg: String, text: String },
    /// one request carrying request-local facts / rules and a query
    RequestLocal { kg: String, facts: Vec<(String, T)>, rules: Vec<String>, query: String, #[serde(default)] canon_rules: Option<Vec<String>> },
    /// consistent read of a base relation from the incremental engine, compared with the model
    IncrRead { kg: String, rel: String },
    SessCreate { slot: usize, kg: String },
    SessInsert { slot: usize, rel: String, tuples: Vec<T> },
    SessRetract { slot: usize, rel: String, tuples: Vec<T> },
    SessAddRule { slot: usize, text: String },
    /// a program sent over the session (".session clear", session facts "f(1,2)", persistent writes ...)
    SessExec { slot: usize, text: String, effect: Effect, clears_session: bool, #[serde(default)] seffect: SEffect },
    /// WebSocket attach / detach of a session (an attached session is never reaped)
    SessAttach { slot: usize, attach: bool },
    SessQuery { slot: usize, text: String },
    SessClose { slot: usize },
    Reap,
    Advance { secs: u64 },
    Restart,
    EnableIncremental { kg: String },
    /// multi-tuple delete straight through StorageEngine::delete_tuples_from (present and absent tuples mixed)
    EngineDelete { kg: String, rel: String, tuples: Vec<T> },
    /// multi-tuple insert straight through StorageEngine::insert_tuples_into (in-batch duplicates, stored duplicates, large batches)
    EngineInsert { kg: String, rel: String, tuples: Vec<T> },
    /// one stateless request made of several statements (executed in program order); each statement
    /// carries its meaning for the model; at most one of them is an insert
    Multi { kg: String, stmts: Vec<(String, Effect)> },
    /// a program in engine syntax run on the knowledge graph's own long-lived engine
    /// (StorageEngine::with_kg_mut + KnowledgeGraph::execute_with_rules_tuples), answer compared with the
    /// same call on a pristine store loaded from the model (engine history must not matter)
    KgEngineQuery { kg: String, text: String },
    /// engine-level maintenance (shared with DUR)
    SaveAll,
    CompactAll,
}

#[derive(Clone, Debug, Serialize, Deserialize, PartialEq, Default)]
pub struct HCase {
    pub seed: u64,
    pub cfg: EngineCfg,
    pub idle_timeout_secs: u64,
    pub ops: Vec<HOp>,
    /// verify write reports ("Inserted n fact(s)" ...) against the model
    pub check_reports: bool,
    /// use the async execute_program path on a current-thread tokio runtime instead of the sync hook
    pub use_async: bool,
}

#[derive(Clone, Debug, Serialize, Deserialize, Default)]
pub struct HOutcome {
    pub status: String,
    pub failure: Option<Failure>,
    pub events: u64,
    pub log_hash: u64,
    pub state_hashes: Vec<u64>,
    pub steps_done: usize,
    pub queries_checked: u32,
    pub sessions_created: u32,
    pub sessions_reaped: u32,
    pub restarts: u32,
    pub sim_seconds: u64,
    pub fs: FsCounters,
    pub harness_error: Option<String>,
    pub rejected_inserts: u32,
    pub op_errors: u32,
}

struct Sess {
    id: String,
    kg: String,
    alive: bool,
    facts: BTreeMap<String, BTreeSet<T>>,
    rules: Vec<String>,
}

struct X<'a> {
    case: &'a HCase,
    handler: Option<Handler>,
    rt: tokio::runtime::Runtime,
    model: StoreModel,
    sessions: BTreeMap<usize, Sess>,
    log: Vec<u8>,
    out: HOutcome,
    oracle_n: u32,
}

fn fail(oracle: &str, step: usize, detail: String) -> Failure {
    Failure { oracle: oracle.to_string(), step: step as i64, detail }
}

pub fn lit(v: &V) -> String {
    match v {
        V::I32(x) => x.to_string(),
        V::I64(x) => x.to_string(),
        V::F64(b) => {
            let f = f64::from_bits(*b);
            if f.fract() == 0.0 && f.is_finite() {
                format!("{f:.1}")
            } else {
                format!("{f}")
            }
        }
        V::Str(s) => format!("\"{}\"", s.replace('\\', "\\\\").replace('"', "\\\"")),
        V::Bool(b) => b.to_string(),
        V::Null => "null".into(),
        V::Ts(t) => t.to_string(),
        V::Vec(v) => format!("[{}]", v.iter().map(|b| format!("{:?}", f32::from_bits(*b))).collect::<Vec<_>>().join(", ")),
        V::VecI8(v) => format!("[{}]", v.iter().map(|b| b.to_string()).collect::<Vec<_>>().join(", ")),
    }
}

pub fn tuple_lit(t: &T) -> String {
    format!("({})", t.iter().map(lit).collect::<Vec<_>>().join(", "))
}

fn wire_to_v(w: &inputlayer::protocol::wire::WireValue) -> V {
    use inputlayer::protocol::wire::WireValue as W;
    match w {
        W::Null => V::Null,
        W::Int32(x) => V::I32(*x),
        W::Int64(x) => V::I64(*x),
        W::Float64(f) => V::F64(f.to_bits()),
        W::String(s) => V::Str(s.clone()),
        W::Bool(b) => V::Bool(*b),
        W::Timestamp(t) => V::Ts(*t),
        W::Vector(v) => V::Vec(v.iter().map(|f| f.to_bits()).collect()),
        W::VectorInt8(v) => V::VecI8(v.clone()),
        W::Bytes(b) => V::Str(format!("bytes:{b:?}")),
    }
}

/// Normalise integers so that Int32/Int64 differences introduced by the query pipeline do not
/// count (value *kinds* of stored data are C12's business, not the business of these scenarios).
fn norm_v(v: V) -> V {
    match v {
        V::I32(x) => V::I64(x as i64),
        o => o,
    }
}

fn rows_of(r: &inputlayer::protocol::wire::QueryResult) -> Vec<T> {
    let mut rows: Vec<T> = r.rows.iter().map(|t| t.values.iter().map(|w| norm_v(wire_to_v(w))).collect()).collect();
    rows.sort();
    rows
}

fn strings_of(r: &inputlayer::protocol::wire::QueryResult) -> Vec<String> {
    let mut out = Vec::new();
    for t in &r.rows {
        for w in &t.values {
            if let inputlayer::protocol::wire::WireValue::String(s) = w {
                out.push(s.clone());
            }
        }
    }
    out
}

fn cmp_holds(v: i64, cmp: &str, k: i64) -> bool {
    match cmp {
        ">" => v > k,
        "<" => v < k,
        ">=" => v >= k,
        "<=" => v <= k,
        "=" => v == k,
        _ => v != k,
    }
}

fn as_i64(v: &V) -> Option<i64> {
    match v {
        V::I32(x) => Some(*x as i64),
        V::I64(x) => Some(*x),
        _ => None,
    }
}

fn schema_type_accepts(ty: &str, v: &V) -> Option<bool> {
    // unambiguous cases only (calibrated against schema/validator.rs); None = do not judge
    match (ty, v) {
        ("int", V::I32(_) | V::I64(_)) => Some(true),
        ("int", V::Str(_) | V::Bool(_) | V::F64(_)) => Some(false),
        ("string", V::Str(_)) => Some(true),
        ("string", V::I32(_) | V::I64(_) | V::F64(_) | V::Bool(_)) => Some(false),
        ("float", V::F64(_)) => Some(true),
        ("float", V::Str(_) | V::Bool(_)) => Some(false),
        ("bool", V::Bool(_)) => Some(true),
        ("bool", V::Str(_) | V::I32(_) | V::I64(_) | V::F64(_)) => Some(false),
        ("any", _) => Some(true),
        ("vector(3)", V::Vec(v)) => Some(v.len() == 3),
        ("vector(3)", V::Str(_) | V::I32(_) | V::I64(_) | V::Bool(_) | V::F64(_)) => Some(false),
        ("vector", V::Vec(_)) => Some(true),
        ("vector", V::Str(_) | V::I32(_) | V::I64(_) | V::Bool(_) | V::F64(_)) => Some(false),
        _ => None,
    }
}

/// Some(true) = every tuple conforms, Some(false) = some tuple certainly violates, None = unsure
fn batch_conforms(cols: &[(String, String)], tuples: &[T]) -> Option<bool> {
    let mut unsure = false;
    for t in tuples {
        if t.len() != cols.len() {
            return Some(false);
        }
        for (v, (_, ty)) in t.iter().zip(cols) {
            match schema_type_accepts(ty, v) {
                Some(true) => {}
                Some(false) => return Some(false),
                None => unsure = true,
            }
        }
    }
    if unsure {
        None
    } else {
        Some(true)
    }
}

impl<'a> X<'a> {
    fn logln(&mut self, s: &str) {
        // the run directory carries the pid: error texts that quote a path must not change the log hash
        self.log.extend_from_slice(crate::dur::canon_paths(s).as_bytes());
        self.log.push(b'\n');
    }
    fn h(&self) -> &Handler {
        self.handler.as_ref().expect("handler")
    }
    fn open(&mut self) -> Result<(), String> {
        let storage = StorageEngine::new(make_config(&self.case.cfg)).map_err(|e| e.to_string())?;
        let sc = SessionConfig { idle_timeout_secs: self.case.idle_timeout_secs, ..SessionConfig::default() };
        self.handler = Some(Handler::with_session_config(storage, sc));
        Ok(())
    }

    fn run_program(&self, session: Option<&String>, kg: Option<String>, text: String) -> Result<inputlayer::protocol::wire::QueryResult, String> {
        if self.case.use_async || session.is_some() {
            self.rt.block_on(self.h().execute_program(session, kg, text, None))
        } else {
            self.h().verif_execute_sync(kg, text)
        }
    }

    /// Fresh evaluation: pristine engine loaded from the model (+ extra facts / rule texts), same
    /// query text, through the same request path of a handler that has no other state.
    fn oracle(&mut self, kg: &str, extra_facts: &BTreeMap<String, BTreeSet<T>>, extra_rules: &[String], query: &str) -> Result<Vec<T>, String> {
        self.oracle_n += 1;
        if !self.model.kgs.contains_key(kg) {
            return Err(format!("knowledge graph {kg} does not exist in the model"));
        }
        let dir = format!("{}/oracle-{}", root_dir(), self.oracle_n);
        // same worker count as the engine under test: evaluation defects (the business of C01-C08,
        // not of these scenarios) must cancel out, isolation/visibility/staleness defects must not
        let mut ocfg = EngineCfg::default();
        ocfg.num_threads = self.case.cfg.num_threads;
        let mut cfg = make_config(&ocfg);
        cfg.storage.data_dir = std::path::PathBuf::from(&dir);
        let eng = StorageEngine::new(cfg).map_err(|e| format!("oracle engine: {e}"))?;
        if kg != "default" {
            eng.create_knowledge_graph(kg).map_err(|e| e.to_string())?;
        }
        let k = self.model.kgs.get(kg).cloned().unwrap_or_default();
        let mut facts: BTreeMap<String, BTreeSet<T>> = k.rels.clone();
        for (r, ts) in extra_facts {
            facts.entry(r.clone()).or_default().extend(ts.iter().cloned());
        }
        for (rel, ts) in &facts {
            if ts.is_empty() {
                continue;
            }
            eng.insert_tuples_into(kg, rel, ts.iter().map(to_tuple).collect()).map_err(|e| format!("oracle insert: {e}"))?;
        }
        for clauses in k.rules.values() {
            for text in clauses {
                let def = inputlayer::statement::parse_rule_definition(text).map_err(|e| format!("oracle rule parse: {e}"))?;
                eng.register_rule_in(kg, &def).map_err(|e| format!("oracle rule: {e}"))?;
            }
        }
        let h = Handler::new(eng);
        let mut program = String::new();
        for r in extra_rules {
            program.push_str(r);
            program.push('\n');
        }
        program.push_str(query);
        let res = h.verif_execute_sync(Some(kg.to_string()), program);
        drop(h);
        {
            let _g = simsys::BypassGuard::new();
        }
        res.map(|r| rows_of(&r))
    }

    /// Fresh evaluation through the knowledge graph's own engine on a pristine store loaded from the model.
    fn oracle_engine(&mut self, kg: &str, text: &str) -> Result<Vec<T>, String> {
        self.oracle_n += 1;
        if !self.model.kgs.contains_key(kg) {
            return Err(format!("knowledge graph {kg} does not exist in the model"));
        }
        let dir = format!("{}/oracle-{}", root_dir(), self.oracle_n);
        let mut ocfg = EngineCfg::default();
        ocfg.num_threads = self.case.cfg.num_threads;
        let mut cfg = make_config(&ocfg);
        cfg.storage.data_dir = std::path::PathBuf::from(&dir);
        let eng = StorageEngine::new(cfg).map_err(|e| format!("oracle engine: {e}"))?;
        if kg != "default" {
            eng.create_knowledge_graph(kg).map_err(|e| e.to_string())?;
        }
        let k = self.model.kgs.get(kg).cloned().unwrap_or_default();
        for (rel, ts) in &k.rels {
            if !ts.is_empty() {
                eng.insert_tuples_into(kg, rel, ts.iter().map(to_tuple).collect()).map_err(|e| format!("oracle insert: {e}"))?;
            }
        }
        for clauses in k.rules.values() {
            for text in clauses {
                let def = inputlayer::statement::parse_rule_definition(text).map_err(|e| format!("oracle rule parse: {e}"))?;
                eng.register_rule_in(kg, &def).map_err(|e| format!("oracle rule: {e}"))?;
            }
        }
        let r = eng.with_kg_mut(kg, |k| k.execute_with_rules_tuples(text)).map_err(|e| e.to_string())?;
        let mut rows: Vec<T> = r.iter().map(|t| crate::values::from_tuple(t).into_iter().map(norm_v).collect()).collect();
        rows.sort();
        Ok(rows)
    }

    fn check_persistent(&mut self, step: usize) -> Result<(), Failure> {
        let obs = {
            let g = self.h().get_storage();
            observe(&g).map_err(|d| fail("observe_failed", step, d))?
        };
        self.logln(&format!("obs {}", serde_json::to_string(&obs).unwrap_or_default()));
        self.out.state_hashes.push(fnv64(serde_json::to_string(&obs).unwrap_or_default().as_bytes()));
        if let Some(d) = obs.has_duplicates() {
            return Err(fail("not_a_set", step, d));
        }
        // the oracle handler's directory is not part of the store
        let want = self.model.normalised();
        if let Some(d) = obs.diff_facts(&want) {
            return Err(fail("persistent_facts_differ_from_model", step, d));
        }
        if let Some(d) = obs.diff_rules(&want) {
            return Err(fail("persistent_rules_differ_from_model", step, d));
        }
        Ok(())
    }

    fn apply_effect(&mut self, kg: &str, effect: &Effect, msgs: &[String], step: usize, errored: bool) -> Result<(), Failure> {
        let check = self.case.check_reports;
        match effect {
            Effect::CreateKg { name } => {
                if !errored && !msgs.iter().any(|m| m.contains("already exists") || m.contains("rror")) {
                    let _ = self.model.create_kg(name);
                }
                return Ok(());
            }
            Effect::DropKg { name } => {
                if !errored && !msgs.iter().any(|m| m.contains("not found") || m.contains("rror") || m.contains("Cannot")) {
                    let _ = self.model.drop_kg(name);
                }
                return Ok(());
            }
            _ => {}
        }
        let Some(k) = self.model.kgs.get_mut(kg) else { return Ok(()) };
        let has = |needle: &str| msgs.iter().any(|m| m.contains(needle));
        match effect {
            Effect::None => {}
            Effect::Insert { rel, tuples } => {
                // declared persistent schema decides acceptance
                let verdict = k.schemas.get(rel).map(|cols| batch_conforms(cols, tuples));
                let rejected = has("rejected") || errored;
                match verdict {
                    Some(Some(false)) => {
                        if !rejected {
                            return Err(fail("schema_violation_accepted", step, format!("{kg}:{rel} schema {:?} accepted batch {:?}; messages {msgs:?}", k.schemas.get(rel), tuples)));
                        }
                        self.out.rejected_inserts += 1;
                        return Ok(());
                    }
                    Some(Some(true)) | None => {
                        if rejected {
                            if verdict.is_some() {
                                return Err(fail("conforming_insert_rejected", step, format!("{kg}:{rel} schema {:?} rejected conforming batch {:?}; messages {msgs:?}", k.schemas.get(rel), tuples)));
                            }
                            return Err(fail("insert_rejected_without_schema", step, format!("{kg}:{rel} batch {:?}; messages {msgs:?}", tuples)));
                        }
                    }
                    Some(None) => {
                        if rejected {
                            self.out.rejected_inserts += 1;
                            return Ok(());
                        }
                    }
                }
                let r = k.rels.entry(rel.clone()).or_default();
                let mut n = 0;
                for t in tuples {
                    if r.insert(t.clone()) {
                        n += 1;
                    }
                }
                if check && !has(&format!("Inserted {n} fact(s) into '{rel}'")) {
                    return Err(fail("report_mismatch", step, format!("insert into {rel}: model says {n} new; messages {msgs:?}")));
                }
            }
            Effect::Delete { rel, tuples } => {
                let mut n = 0;
                if let Some(r) = k.rels.get_mut(rel) {
                    for t in tuples {
                        if r.remove(t) {
                            n += 1;
                        }
                    }
                }
                if check && !has(&format!("Deleted {n} fact")) {
                    return Err(fail("report_mismatch", step, format!("delete from {rel}: model says {n}; messages {msgs:?}")));
                }
            }
            Effect::CondDelete { rel, col, cmp, k: kk } => {
                let mut n = 0;
                if let Some(r) = k.rels.get_mut(rel) {
                    let before = r.len();
                    r.retain(|t| !t.get(*col).and_then(as_i64).is_some_and(|v| cmp_holds(v, cmp, *kk)));
                    n = before - r.len();
                }
                if check && !has(&format!("Conditional delete: {n} fact(s) deleted from '{rel}'")) {
                    return Err(fail("report_mismatch", step, format!("conditional delete on {rel}: model says {n}; messages {msgs:?}")));
                }
            }
            Effect::CondDeleteDiag { rel } => {
                let mut n = 0;
                if let Some(r) = k.rels.get_mut(rel) {
                    let before = r.len();
                    r.retain(|t| !(t.len() == 2 && t[0] == t[1]));
                    n = before - r.len();
                }
                if check && !has(&format!("Conditional delete: {n} fact(s) deleted from '{rel}'")) {
                    return Err(fail("report_mismatch", step, format!("conditional delete (repeated variable) on {rel}: model says {n}; messages {msgs:?}")));
                }
            }
            Effect::Update { rel, col, cmp, k: kk, add, set_to } => {
                let mut d = 0;
                if let Some(r) = k.rels.get_mut(rel) {
                    let matched: Vec<T> = r.iter().filter(|t| t.get(*col).and_then(as_i64).is_some_and(|v| cmp_holds(v, cmp, *kk))).cloned().collect();
                    let mut ins = Vec::new();
                    for t in &matched {
                        let mut nt = t.clone();
                        if let Some(y) = nt.get(1).and_then(as_i64) {
                            // arithmetic yields Int64 whatever the width of its operand (calibrated on the unchanged tree)
                            nt[1] = V::I64(set_to.unwrap_or(y + add));
                        }
                        ins.push(nt);
                    }
                    for t in &matched {
                        if r.remove(t) {
                            d += 1;
                        }
                    }
                    for t in ins {
                        r.insert(t);
                    }
                }
                if check && !has(&format!("Update: {d} deleted")) {
                    return Err(fail("report_mismatch", step, format!("update on {rel}: model says {d} deleted; messages {msgs:?}")));
                }
            }
            Effect::Rule { name, text } => {
                if !errored && !has("rror") {
                    let cl = k.rules.entry(name.clone()).or_default();
                    if !cl.contains(text) {
                        cl.push(text.clone());
                    }
                }
            }
            Effect::DropRule { name } => {
                if !errored {
                    k.rules.remove(name);
                }
            }
            Effect::ClearRule { name } => {
                if !errored && !has("not found") && !has("does not exist") {
                    if let Some(c) = k.rules.get_mut(name) {
                        c.clear();
                    }
                }
            }
            Effect::RemoveClause { name, index } => {
                if !errored && !has("out of bounds") && !has("does not exist") && !has("rror") {
                    if let Some(c) = k.rules.get_mut(name) {
                        if *index >= 1 && *index <= c.len() {
                            c.remove(*index - 1);
                            if c.is_empty() {
                                k.rules.remove(name);
                            }
                        }
                    }
                }
            }
            Effect::Schema { rel, cols } => {
                if !errored && has("registered") {
                    k.schemas.insert(rel.clone(), cols.clone());
                }
            }
            Effect::SessionSchema { .. } | Effect::CreateKg { .. } | Effect::DropKg { .. } => {}
        }
        Ok(())
    }

    fn step(&mut self, i: usize, op: &HOp) -> Result<(), Failure> {
        match op {
            HOp::Program { kg, text, effect } => {
                let r = self.run_program(None, Some(kg.clone()), text.clone());
                let (msgs, errored) = match &r {
                    Ok(q) => (strings_of(q), false),
                    Err(e) => (vec![e.clone()], true),
                };
                self.logln(&format!("step {i} program {text:?} -> {msgs:?}"));
                if errored {
                    self.out.op_errors += 1;
                }
                self.apply_effect(kg, effect, &msgs, i, errored)?;
                self.check_persistent(i)?;
            }
            HOp::Query { kg, text } => {
                let got = self.run_program(None, Some(kg.clone()), text.clone()).map(|r| rows_of(&r));
                let want = self.oracle(kg, &BTreeMap::new(), &[], text);
                self.compare_answers(i, "stateless_query", text, got, want, &BTreeSet::new())?;
                self.check_persistent(i)?;
            }
            HOp::RequestLocal { kg, facts, rules, query, canon_rules } => {
                let mut program = String::new();
                let mut extra: BTreeMap<String, BTreeSet<T>> = BTreeMap::new();
                for (rel, t) in facts {
                    program.push_str(&format!("{rel}{}\n", tuple_lit(t)));
                    extra.entry(rel.clone()).or_default().insert(t.clone());
                }
                for r in rules {
                    program.push_str(r);
                    program.push('\n');
                }
                program.push_str(query);
                let got = self.run_program(None, Some(kg.clone()), program).map(|r| rows_of(&r));
                let want = self.oracle(kg, &extra, canon_rules.as_ref().unwrap_or(rules), query);
                self.compare_answers(i, "request_local_query", query, got, want, &BTreeSet::new())?;
                self.check_persistent(i)?;
            }
            HOp::SessCreate { slot, kg } => {
                let r = self.h().create_session(kg);
                self.logln(&format!("step {i} sess_create {slot} -> {}", r.is_ok()));
                if let Ok(id) = r {
                    self.out.sessions_created += 1;
                    self.sessions.insert(*slot, Sess { id, kg: kg.clone(), alive: true, facts: BTreeMap::new(), rules: Vec::new() });
                }
            }
            HOp::SessInsert { slot, rel, tuples } => {
                let Some(id) = self.sessions.get(slot).map(|s| s.id.clone()) else { return Ok(()) };
                let r = self.h().session_insert_ephemeral(&id, rel, tuples.iter().map(to_tuple).collect());
                self.logln(&format!("step {i} sess_insert {slot} -> {r:?}"));
                let alive = self.h().session_manager().has_session(&id);
                let s = self.sessions.get_mut(slot).expect("slot");
                match r {
                    Ok(n) => {
                        let set = s.facts.entry(rel.clone()).or_default();
                        let mut m = 0;
                        for t in tuples {
                            if set.insert(t.clone()) {
                                m += 1;
                            }
                        }
                        if n != m {
                            return Err(fail("session_report_mismatch", i, format!("session insert reported {n}, model {m}")));
                        }
                    }
                    Err(e) => {
                        if s.alive && alive {
                            // schema validation may refuse; anything else on a live session is a finding of C33, not C10
                            self.out.op_errors += 1;
                            let _ = e;
                        }
                        s.alive = alive;
                    }
                }
                self.check_persistent(i)?;
            }
            HOp::SessRetract { slot, rel, tuples } => {
                let Some(id) = self.sessions.get(slot).map(|s| s.id.clone()) else { return Ok(()) };
                let r = self.h().session_retract_ephemeral(&id, rel, tuples.iter().map(to_tuple).collect());
                self.logln(&format!("step {i} sess_retract {slot} -> {r:?}"));
                let s = self.sessions.get_mut(slot).expect("slot");
                if r.is_ok() {
                    if let Some(set) = s.facts.get_mut(rel) {
                        for t in tuples {
                            set.remove(t);
                        }
                    }
                }
                self.check_persistent(i)?;
            }
            HOp::SessAddRule { slot, text } => {
                let Some(id) = self.sessions.get(slot).map(|s| s.id.clone()) else { return Ok(()) };
                let r = match inputlayer::statement::parse_transient_rule(text) {
                    Ok(rule) => self.h().session_add_rule(&id, rule, text.clone()),
                    Err(e) => Err(e),
                };
                self.logln(&format!("step {i} sess_add_rule {slot} -> {r:?}"));
                if r.is_ok() {
                    self.sessions.get_mut(slot).expect("slot").rules.push(text.clone());
                }
                self.check_persistent(i)?;
            }
            HOp::SessExec { slot, text, effect, clears_session, seffect } => {
                let Some((id, kg)) = self.sessions.get(slot).map(|s| (s.id.clone(), s.kg.clone())) else { return Ok(()) };
                let alive_before = self.h().session_manager().has_session(&id);
                let r = self.run_program(Some(&id), None, text.clone());
                let (msgs, errored) = match &r {
                    Ok(q) => (strings_of(q), false),
                    Err(e) => (vec![e.clone()], true),
                };
                self.logln(&format!("step {i} sess_exec {slot} {text:?} -> {msgs:?}"));
                if alive_before {
                    self.apply_effect(&kg, effect, &msgs, i, errored)?;
                    if !errored {
                        let known_kg = |m: &StoreModel, k: &str| m.kgs.contains_key(k);
                        let target_known = match seffect {
                            SEffect::SwitchKg { kg } => known_kg(&self.model, kg),
                            _ => true,
                        };
                        let s = self.sessions.get_mut(slot).expect("slot");
                        if *clears_session {
                            s.facts.clear();
                            s.rules.clear();
                        }
                        match seffect {
                            SEffect::None => {}
                            SEffect::SwitchKg { kg } => {
                                if target_known {
                                    s.kg = kg.clone();
                                    s.facts.clear();
                                    s.rules.clear();
                                }
                            }
                            SEffect::DropRuleIndex { index } => {
                                if *index >= 1 && *index <= s.rules.len() {
                                    s.rules.remove(*index - 1);
                                }
                            }
                            SEffect::DropRuleName { name } => {
                                s.rules.retain(|t| t.split('(').next().map(str::trim) != Some(name.as_str()));
                            }
                            SEffect::AddFact { rel, tuple } => {
                                s.facts.entry(rel.clone()).or_default().insert(tuple.clone());
                            }
                            SEffect::AddRule { text } => s.rules.push(text.clone()),
                        }
                    }
                } else if !matches!(effect, Effect::None) && !errored {
                    // a reaped session falls back to a stateless request: the persistent effect still applies
                    self.apply_effect(&kg, effect, &msgs, i, errored)?;
                }
                self.check_persistent(i)?;
            }
            HOp::SessAttach { slot, attach } => {
                let Some(id) = self.sessions.get(slot).map(|s| s.id.clone()) else { return Ok(()) };
                if *attach {
                    let r = self.h().session_manager().attach_ws(&id);
                    self.logln(&format!("step {i} attach_ws {slot} -> {}", r.is_ok()));
                } else {
                    self.h().session_manager().detach_ws(&id);
                    self.logln(&format!("step {i} detach_ws {slot}"));
                }
            }
            HOp::SessQuery { slot, text } => {
                let Some((id, kg)) = self.sessions.get(slot).map(|s| (s.id.clone(), s.kg.clone())) else { return Ok(()) };
                let alive = self.h().session_manager().has_session(&id);
                let got = self.rt.block_on(self.h().query_program_with_session(&id, text.clone())).map(|r| rows_of(&r));
                let (facts, rules) = {
                    let s = self.sessions.get_mut(slot).expect("slot");
                    if !alive {
                        s.alive = false;
                        s.facts.clear();
                        s.rules.clear();
                    }
                    (s.facts.clone(), s.rules.clone())
                };
                // a reaped/closed session queries its default graph statelessly
                let kg_eff = if alive { kg } else { "default".to_string() };
                let want = self.oracle(&kg_eff, &facts, &rules, text);
                let mut own: BTreeSet<V> = BTreeSet::new();
                for ts in facts.values() {
                    for t in ts {
                        own.extend(t.iter().cloned().map(norm_v));
                    }
                }
                self.compare_answers(i, "session_query", text, got, want, &own)?;
                self.check_persistent(i)?;
            }
            HOp::SessClose { slot } => {
                if let Some(s) = self.sessions.get_mut(slot) {
                    let id = s.id.clone();
                    s.alive = false;
                    s.facts.clear();
                    s.rules.clear();
                    let r = self.h().close_session(&id);
                    self.logln(&format!("step {i} sess_close {slot} -> {}", r.is_ok()));
                }
            }
            HOp::Reap => {
                let n = self.h().session_manager().reap_expired();
                self.out.sessions_reaped += n as u32;
                self.logln(&format!("step {i} reap -> {n}"));
                let ids: Vec<(usize, String)> = self.sessions.iter().map(|(k, s)| (*k, s.id.clone())).collect();
                for (slot, id) in ids {
                    if !self.h().session_manager().has_session(&id) {
                        let s = self.sessions.get_mut(&slot).expect("slot");
                        s.alive = false;
                        s.facts.clear();
                        s.rules.clear();
                    }
                }
            }
            HOp::Advance { secs } => {
                simsys::advance_ns(secs * 1_000_000_000);
                self.out.sim_seconds += secs;
            }
            HOp::Restart => {
                self.check_persistent(i)?;
                self.handler = None;
                self.out.restarts += 1;
                self.open().map_err(|e| fail("reopen_failed", i, e))?;
                for s in self.sessions.values_mut() {
                    s.alive = false;
                    s.facts.clear();
                    s.rules.clear();
                }
                // session schemas are request/session state: they do not survive a restart either
                self.check_persistent(i)?;
            }
            HOp::EnableIncremental { kg } => {
                let r = {
                    let g = self.h().get_storage();
                    g.with_kg_mut(kg, |k| k.enable_incremental().map_err(|e| e.to_string()))
                };
                self.logln(&format!("step {i} enable_incremental -> {}", r.is_ok()));
            }
            HOp::IncrRead { kg, rel } => {
                let r = {
                    let g = self.h().get_storage();
                    g.with_kg_read(kg, |k| match k.incremental() {
                        Some(inc) => inc.read_relation_consistent(rel).map(Some),
                        None => Ok(None),
                    })
                };
                match r {
                    Ok(Some(ts)) => {
                        let mut got: Vec<T> = ts.iter().map(crate::values::from_tuple).collect();
                        got.sort();
                        let want: Vec<T> = self.model.kgs.get(kg).and_then(|k| k.rels.get(rel)).map(|s| s.iter().cloned().collect()).unwrap_or_default();
                        self.out.queries_checked += 1;
                        self.logln(&format!("step {i} incr_read {rel} -> {got:?}"));
                        if got != want {
                            return Err(fail("incremental_read_differs_from_relation", i, format!("{kg}:{rel}: arrangement {got:?}, relation {want:?}")));
                        }
                    }
                    Ok(None) => {}
                    Err(e) => return Err(fail("incremental_read_failed", i, format!("{kg}:{rel}: {e}"))),
                }
            }
            HOp::EngineDelete { kg, rel, tuples } => {
                let r = {
                    let g = self.h().get_storage();
                    g.delete_tuples_from(kg, rel, tuples.iter().map(to_tuple).collect())
                };
                let mut n = 0;
                if let Some(k) = self.model.kgs.get_mut(kg) {
                    if let Some(set) = k.rels.get_mut(rel) {
                        for t in tuples {
                            if set.remove(t) {
                                n += 1;
                            }
                        }
                    }
                }
                self.logln(&format!("step {i} engine_delete -> {r:?}"));
                match r {
                    Ok(c) if c == n => {}
                    other => return Err(fail("report_mismatch", i, format!("delete_tuples_from({rel}, {tuples:?}) returned {other:?}, model removed {n}"))),
                }
                self.check_persistent(i)?;
            }
            HOp::EngineInsert { kg, rel, tuples } => {
                let r = {
                    let g = self.h().get_storage();
                    g.insert_tuples_into(kg, rel, tuples.iter().map(to_tuple).collect())
                };
                let (mut n, mut d) = (0, 0);
                if let Some(k) = self.model.kgs.get_mut(kg) {
                    let set = k.rels.entry(rel.clone()).or_default();
                    for t in tuples {
                        if set.insert(t.clone()) {
                            n += 1;
                        } else {
                            d += 1;
                        }
                    }
                }
                self.logln(&format!("step {i} engine_insert -> {r:?}"));
                match r {
                    Ok((a, b)) if a == n && b == d => {}
                    other => return Err(fail("report_mismatch", i, format!("insert_tuples_into({rel}, {} tuples) returned {other:?}, model says ({n} new, {d} duplicates)", tuples.len()))),
                }
                self.check_persistent(i)?;
            }
            HOp::Multi { kg, stmts } => {
                let text = stmts.iter().map(|(t, _)| t.as_str()).collect::<Vec<_>>().join("\n");
                let r = self.run_program(None, Some(kg.clone()), text.clone());
                let (msgs, errored) = match &r {
                    Ok(q) => (strings_of(q), false),
                    Err(e) => (vec![e.clone()], true),
                };
                self.logln(&format!("step {i} multi {text:?} -> {msgs:?}"));
                if errored {
                    self.out.op_errors += 1;
                }
                // a request-local schema declared earlier in the same request is enforced on top of the
                // persistent one: a batch that does not certainly conform to it may be refused
                let mut req_local: BTreeMap<String, Vec<(String, String)>> = BTreeMap::new();
                for (_, effect) in stmts {
                    match effect {
                        Effect::SessionSchema { rel, cols } => {
                            req_local.insert(rel.clone(), cols.clone());
                        }
                        Effect::Insert { rel, tuples } => {
                            let refused = errored || msgs.iter().any(|m| m.contains("rejected"));
                            let may_refuse = req_local.get(rel).is_some_and(|cols| batch_conforms(cols, tuples) != Some(true));
                            if refused && may_refuse {
                                self.out.rejected_inserts += 1;
                                continue;
                            }
                        }
                        _ => {}
                    }
                    self.apply_effect(kg, effect, &msgs, i, errored)?;
                }
                self.check_persistent(i)?;
            }
            HOp::KgEngineQuery { kg, text } => {
                let got = {
                    let g = self.h().get_storage();
                    g.with_kg_mut(kg, |k| k.execute_with_rules_tuples(text))
                }
                .map(|ts| {
                    let mut rows: Vec<T> = ts.iter().map(|t| crate::values::from_tuple(t).into_iter().map(norm_v).collect()).collect();
                    rows.sort();
                    rows
                })
                .map_err(|e| e.to_string());
                let want = self.oracle_engine(kg, text);
                self.compare_answers(i, "stateless_query", text, got, want, &BTreeSet::new())?;
                self.check_persistent(i)?;
            }
            HOp::SaveAll => {
                let g = self.h().get_storage();
                let _ = g.save_all();
            }
            HOp::CompactAll => {
                let g = self.h().get_storage();
                let _ = g.compact_all();
            }
        }
        Ok(())
    }

    fn compare_answers(&mut self, step: usize, kind: &str, query: &str, got: Result<Vec<T>, String>, want: Result<Vec<T>, String>, _own: &BTreeSet<V>) -> Result<(), Failure> {
        self.out.queries_checked += 1;
        self.logln(&format!("step {step} {kind} {query:?} -> {got:?}"));
        match (got, want) {
            (Ok(g), Ok(w)) => {
                if g != w {
                    // classify: tuples that the fresh evaluation does not produce = leak / stale data
                    let gs: BTreeSet<&T> = g.iter().collect();
                    let ws: BTreeSet<&T> = w.iter().collect();
                    let extra: Vec<&&T> = gs.difference(&ws).collect();
                    let missing: Vec<&&T> = ws.difference(&gs).collect();
                    return Err(fail(
                        &format!("{kind}_differs_from_fresh_evaluation"),
                        step,
                        format!("query {query:?}: extra {extra:?} missing {missing:?} (answer {} rows, fresh evaluation {} rows)", g.len(), w.len()),
                    ));
                }
                Ok(())
            }
            (Err(_), Err(_)) => Ok(()),
            (Ok(g), Err(e)) => {
                // the fresh evaluation rejects the query (e.g. unknown relation) but the server answered
                if g.is_empty() {
                    Ok(())
                } else {
                    Err(fail(&format!("{kind}_differs_from_fresh_evaluation"), step, format!("query {query:?}: answered {g:?}, fresh evaluation fails with {e}")))
                }
            }
            (Err(e), Ok(w)) => {
                if w.is_empty() {
                    Ok(())
                } else {
                    Err(fail(&format!("{kind}_differs_from_fresh_evaluation"), step, format!("query {query:?}: failed with {e}, fresh evaluation gives {w:?}")))
                }
            }
        }
    }
}

pub fn exec(case: &HCase) -> HOutcome {
    let rt = tokio::runtime::Builder::new_current_thread().enable_time().max_blocking_threads(1).build().expect("tokio rt");
    let mut x = X { case, handler: None, rt, model: StoreModel::new(), sessions: BTreeMap::new(), log: Vec::new(), out: HOutcome::default(), oracle_n: 0 };
    let r = (|| -> Result<(), Failure> {
        x.open().map_err(|e| fail("open_failed", 0, e))?;
        for (i, op) in case.ops.iter().enumerate() {
            x.step(i, op)?;
            x.out.steps_done += 1;
        }
        Ok(())
    })();
    let mut out = std::mem::take(&mut x.out);
    x.handler = None;
    match r {
        Ok(()) => out.status = "ok".into(),
        Err(f) => {
            out.status = "fail".into();
            out.failure = Some(f);
        }
    }
    let c = simsys::counters();
    out.events = c.events;
    out.fs = FsCounters {
        events: c.events,
        writes: c.writes,
        fsyncs: c.fsyncs,
        renames: c.renames,
        unlinks: c.unlinks,
        creates: c.creates,
        truncates: c.truncates,
        faults_errno: 0,
        faults_short: 0,
        frozen_rejects: 0,
    };
    out.log_hash = fnv64(&x.log);
    if std::env::var_os("VERIF_DUMP_LOG").is_some() {
        let _g = simsys::BypassGuard::new();
        let _ = std::fs::write(format!("/tmp/verif-hlog-{}-{}.txt", case.seed, std::process::id()), &x.log);
    }
    let _ = Obs::default();
    out
}
