//! Fork-per-run pool: the parent stays single-threaded; every task runs in a freshly forked child
//! that reports one JSON document through a pipe (DESIGN.md §7).

use std::collections::VecDeque;
use std::io::Read;
use std::os::fd::FromRawFd;
use std::time::{Duration, Instant};

pub struct ChildResult {
    pub json: Option<String>,
    /// exit status / signal description when the child did not report
    pub abnormal: Option<String>,
    pub wall_ms: u64,
}

struct Running<Tk> {
    pid: libc::pid_t,
    file: std::fs::File,
    buf: Vec<u8>,
    start: Instant,
    task: Tk,
}

/// Run tasks with at most `jobs` children alive. `child_fn` runs in the forked child and returns
/// the JSON report; `on_result` may push follow-up tasks.
pub fn run_pool<Tk>(
    mut queue: VecDeque<Tk>,
    jobs: usize,
    timeout: Duration,
    child_fn: &dyn Fn(&Tk) -> String,
    on_result: &mut dyn FnMut(Tk, ChildResult, &mut VecDeque<Tk>),
) {
    let mut running: Vec<Running<Tk>> = Vec::new();
    let mut zombies: Vec<libc::pid_t> = Vec::new();
    loop {
        zombies.retain(|p| {
            let mut st = 0i32;
            unsafe { libc::waitpid(*p, &mut st, libc::WNOHANG) == 0 }
        });
        while running.len() < jobs {
            let Some(task) = queue.pop_front() else { break };
            let mut fds = [0i32; 2];
            unsafe {
                if libc::pipe(fds.as_mut_ptr()) != 0 {
                    panic!("pipe failed");
                }
            }
            let pid = unsafe { libc::fork() };
            if pid < 0 {
                panic!("fork failed");
            }
            if pid == 0 {
                // child
                unsafe {
                    libc::close(fds[0]);
                    if std::env::var_os("VERIF_CHILD_STDERR").is_none() {
                        let devnull = libc::open(b"/dev/null\0".as_ptr() as *const libc::c_char, libc::O_WRONLY);
                        if devnull >= 0 {
                            libc::dup2(devnull, 2);
                            libc::dup2(devnull, 1);
                        }
                    }
                }
                let out = child_fn(&task);
                let bytes = out.as_bytes();
                let mut off = 0;
                while off < bytes.len() {
                    let n = unsafe { libc::write(fds[1], bytes[off..].as_ptr() as *const libc::c_void, bytes.len() - off) };
                    if n <= 0 {
                        break;
                    }
                    off += n as usize;
                }
                unsafe {
                    libc::close(fds[1]);
                    libc::_exit(0);
                }
            }
            unsafe {
                libc::close(fds[1]);
                let fl = libc::fcntl(fds[0], libc::F_GETFL);
                libc::fcntl(fds[0], libc::F_SETFL, fl | libc::O_NONBLOCK);
            }
            running.push(Running {
                pid,
                file: unsafe { std::fs::File::from_raw_fd(fds[0]) },
                buf: Vec::new(),
                start: Instant::now(),
                task,
            });
        }
        if running.is_empty() {
            for p in zombies.drain(..) {
                let mut st = 0i32;
                unsafe { libc::waitpid(p, &mut st, 0) };
            }
            break;
        }
        // poll
        let mut pfds: Vec<libc::pollfd> = running
            .iter()
            .map(|r| libc::pollfd { fd: std::os::fd::AsRawFd::as_raw_fd(&r.file), events: libc::POLLIN, revents: 0 })
            .collect();
        unsafe { libc::poll(pfds.as_mut_ptr(), pfds.len() as libc::nfds_t, 100) };
        let mut i = 0;
        while i < running.len() {
            let mut done = false;
            let mut timed_out = false;
            if pfds[i].revents != 0 {
                let mut tmp = [0u8; 65536];
                loop {
                    match running[i].file.read(&mut tmp) {
                        Ok(0) => {
                            done = true;
                            break;
                        }
                        Ok(n) => running[i].buf.extend_from_slice(&tmp[..n]),
                        Err(e) if e.kind() == std::io::ErrorKind::WouldBlock => break,
                        Err(_) => {
                            done = true;
                            break;
                        }
                    }
                }
            }
            if !done && running[i].start.elapsed() > timeout {
                unsafe { libc::kill(running[i].pid, libc::SIGKILL) };
                done = true;
                timed_out = true;
            }
            if done {
                let r = running.swap_remove(i);
                pfds.swap_remove(i);
                let mut status = 0i32;
                let wall_ms = r.start.elapsed().as_millis() as u64;
                if !r.buf.is_empty() && !timed_out {
                    // the report is complete: reap lazily so that a slow process teardown does not
                    // stall the pool
                    zombies.push(r.pid);
                } else {
                    unsafe { libc::waitpid(r.pid, &mut status, 0) };
                }
                let abnormal = if timed_out {
                    Some(format!("timeout after {} ms", wall_ms))
                } else if libc::WIFSIGNALED(status) {
                    Some(format!("killed by signal {}", libc::WTERMSIG(status)))
                } else if libc::WIFEXITED(status) && libc::WEXITSTATUS(status) != 0 {
                    Some(format!("exit status {}", libc::WEXITSTATUS(status)))
                } else {
                    None
                };
                let json = if r.buf.is_empty() { None } else { Some(String::from_utf8_lossy(&r.buf).to_string()) };
                // remove leftovers of a killed child
                let _ = std::fs::remove_dir_all(format!("/dev/shm/verif-sim/p{:010}", r.pid));
                on_result(r.task, ChildResult { json, abnormal, wall_ms }, &mut queue);
            } else {
                i += 1;
            }
        }
    }
}
