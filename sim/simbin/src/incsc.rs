//! INC: the worker-batching family of C19 (`c19w`), at the IncrementalEngine API itself.
//! DESIGN §5.3 assumed that the worker's command batching (`recv` + `try_recv` drain) does not
//! change results; a seeded change (coalescing AdvanceTime per batch) showed that the assumption
//! has to be checked, and that it cannot be reached through StorageEngine operations (every
//! storage operation ends in a synchronous worker command). This scenario builds worker batches on
//! purpose: the free-running worker thread is parked inside a GetIndexStats command (it needs the
//! index-manager lock, which the scenario holds), the client queues a seeded sequence of
//! fire-and-forget commands (inserts, deletes, advances) and consistent readers, then releases the
//! lock so that the worker drains everything as one batch.
//! Oracle: a consistent read that was started after a write returned sees that write; it equals the
//! model after some prefix of the batch that contains every operation queued before it; a read
//! after the batch equals the model. Real pauses (not simulated time) are used only to let the
//! helper threads reach their blocking point; on a correct engine the verdict does not depend on them.

use crate::dur::Failure;
use crate::values::{fnv64, from_tuple, to_tuple, T};
use inputlayer::incremental::IncrementalEngine;
use serde::{Deserialize, Serialize};
use std::collections::BTreeSet;
use std::sync::Arc;

#[derive(Clone, Debug, Serialize, Deserialize, PartialEq)]
#[serde(tag = "op", rename_all = "snake_case")]
pub enum IOp {
    Insert { tuples: Vec<T> },
    Delete { tuples: Vec<T> },
    /// AdvanceTime to max_write_time + 1 (what a client does after a write)
    Advance,
    /// a consistent reader whose commands are queued at this position of the batch
    Reader,
}

#[derive(Clone, Debug, Serialize, Deserialize, PartialEq, Default)]
pub struct ICase {
    pub seed: u64,
    pub batches: Vec<Vec<IOp>>,
}

#[derive(Clone, Debug, Serialize, Deserialize, Default)]
pub struct IOutcome {
    pub status: String,
    pub failure: Option<Failure>,
    pub log_hash: u64,
    pub state_hashes: Vec<u64>,
    pub batches_run: u32,
    pub reads_checked: u32,
    pub harness_error: Option<String>,
}

fn fail(oracle: &str, step: usize, detail: String) -> Failure {
    Failure { oracle: oracle.to_string(), step: step as i64, detail }
}

fn as_set(ts: &[inputlayer::Tuple]) -> Vec<T> {
    let mut v: Vec<T> = ts.iter().map(from_tuple).collect();
    v.sort();
    v
}

pub fn exec(case: &ICase) -> IOutcome {
    let mut out = IOutcome::default();
    let mut log: Vec<u8> = Vec::new();
    match run(case, &mut out, &mut log) {
        Ok(()) => out.status = "ok".into(),
        Err(f) => {
            out.status = "fail".into();
            out.failure = Some(f);
        }
    }
    out.log_hash = fnv64(&log);
    out
}

fn run(case: &ICase, out: &mut IOutcome, log: &mut Vec<u8>) -> Result<(), Failure> {
    let engine = Arc::new(IncrementalEngine::new(vec!["r".to_string()]).map_err(|e| fail("open_failed", 0, e))?);
    let mut model: BTreeSet<T> = BTreeSet::new();
    for (bi, batch) in case.batches.iter().enumerate() {
        // park the worker
        let im = engine.index_manager();
        let guard = im.lock();
        let e = engine.clone();
        let staller = std::thread::spawn(move || {
            let _ = e.get_index_stats(None);
        });
        simsys::real_sleep_ms(25);
        // states[i] = model after the first i operations of this batch
        let mut states: Vec<BTreeSet<T>> = vec![model.clone()];
        let mut readers: Vec<(usize, std::thread::JoinHandle<Result<Vec<inputlayer::Tuple>, String>>)> = Vec::new();
        for op in batch {
            match op {
                IOp::Insert { tuples } => {
                    // the engine is a multiset arrangement: send only what changes the set (what StorageEngine does)
                    let new: Vec<T> = tuples.iter().filter(|t| !model.contains(*t)).cloned().collect::<BTreeSet<T>>().into_iter().collect();
                    if !new.is_empty() {
                        let time = engine.max_write_time() + 1;
                        engine.insert("r", new.iter().map(to_tuple).collect(), time).map_err(|e| fail("incremental_write_failed", bi, e))?;
                        model.extend(new);
                    }
                }
                IOp::Delete { tuples } => {
                    let gone: Vec<T> = tuples.iter().filter(|t| model.contains(*t)).cloned().collect::<BTreeSet<T>>().into_iter().collect();
                    if !gone.is_empty() {
                        let time = engine.max_write_time() + 1;
                        engine.delete("r", gone.iter().map(to_tuple).collect(), time).map_err(|e| fail("incremental_write_failed", bi, e))?;
                        for t in &gone {
                            model.remove(t);
                        }
                    }
                }
                IOp::Advance => {
                    let t = engine.max_write_time() + 1;
                    engine.advance_time(t).map_err(|e| fail("incremental_write_failed", bi, e))?;
                }
                IOp::Reader => {
                    let e = engine.clone();
                    readers.push((states.len() - 1, std::thread::spawn(move || e.read_relation_consistent("r"))));
                    // let the reader queue its commands before the next operation is queued
                    simsys::real_sleep_ms(12);
                }
            }
            states.push(model.clone());
        }
        drop(guard);
        let _ = staller.join();
        out.batches_run += 1;
        for (pos, h) in readers {
            let got = h.join().map_err(|_| fail("panic", bi, "reader thread panicked".into()))?.map_err(|e| fail("incremental_read_failed", bi, e))?;
            let got = as_set(&got);
            out.reads_checked += 1;
            // which prefix a reader observed depends on real timing: the log records only that it was checked
            log.extend_from_slice(format!("batch {bi} reader@{pos} checked\n").as_bytes());
            let ok = states[pos..].iter().any(|s| s.iter().cloned().collect::<Vec<T>>() == got);
            if !ok {
                return Err(fail(
                    "incremental_read_differs_from_relation",
                    bi,
                    format!(
                        "batch {bi}: a consistent read queued after operation #{pos} of the batch returned {got:?}; the relation after the operations queued before it is {:?} (after the whole batch {:?})",
                        states[pos].iter().collect::<Vec<_>>(),
                        model.iter().collect::<Vec<_>>()
                    ),
                ));
            }
        }
        let after = as_set(&engine.read_relation_consistent("r").map_err(|e| fail("incremental_read_failed", bi, e))?);
        out.reads_checked += 1;
        log.extend_from_slice(format!("batch {bi} after -> {after:?}\n").as_bytes());
        if after != model.iter().cloned().collect::<Vec<T>>() {
            return Err(fail("incremental_read_differs_from_relation", bi, format!("after batch {bi}: arrangement {after:?}, relation {:?}", model.iter().collect::<Vec<_>>())));
        }
        out.state_hashes.push(fnv64(format!("{model:?}").as_bytes()));
    }
    Ok(())
}
