//! LSH: the hyperplane-cache clause of C26, decided by simulation: 2-3 simulated threads hit the
//! process-wide LSH cache (fresh per forked run) with bucket computations, prewarms, clears and
//! resizes under a seeded schedule; every bucket must equal the value computed on a pristine cache.
//! The pure laws (metric symmetry, quantise round-trip, probe sequences) are evaluated on the
//! vectors that flow through the run - incidental, not the deciding search.

use crate::conc::SchedSel;
use crate::dur::Failure;
use crate::values::fnv64;
use inputlayer::vector_ops as vo;
use serde::{Deserialize, Serialize};
use std::collections::BTreeMap;
use std::sync::{Arc, Mutex};

#[derive(Clone, Debug, Serialize, Deserialize, PartialEq)]
#[serde(tag = "op", rename_all = "snake_case")]
pub enum LOp {
    Bucket { v: Vec<f32>, table: i64, hp: usize },
    Buckets { v: Vec<f32>, tables: usize, hp: usize },
    BucketDist { v: Vec<f32>, table: i64, hp: usize },
    MultiProbe { v: Vec<f32>, table: i64, hp: usize, k: usize },
    BucketI8 { v: Vec<i8>, table: i64, hp: usize },
    BucketDistI8 { v: Vec<i8>, table: i64, hp: usize },
    MultiProbeI8 { v: Vec<i8>, table: i64, hp: usize, k: usize },
    Prewarm { table: i64, hp: usize, dim: usize },
    Clear,
    Resize { n: usize },
}

#[derive(Clone, Debug, Serialize, Deserialize, PartialEq, Default)]
pub struct LCase {
    pub seed: u64,
    pub threads: Vec<Vec<LOp>>,
    pub sched: Option<SchedSel>,
    pub sched_seed: u64,
}

#[derive(Clone, Debug, Serialize, Deserialize, Default)]
pub struct LOutcome {
    pub status: String,
    pub failure: Option<Failure>,
    pub log_hash: u64,
    pub state_hashes: Vec<u64>,
    pub sched_choices: Vec<u8>,
    pub sched_steps: u64,
    pub site_hash: u64,
    pub preemptions: u64,
    pub deadlock: Option<String>,
    pub buckets_checked: u32,
    pub law_checks: u32,
    pub evictions: u64,
    pub harness_error: Option<String>,
}

fn fail(oracle: &str, detail: String) -> Failure {
    Failure { oracle: oracle.to_string(), step: -1, detail }
}

fn key(v: &[f32], table: i64, hp: usize) -> String {
    format!("{:?}|{table}|{hp}", v.iter().map(|f| f.to_bits()).collect::<Vec<_>>())
}

/// Every value an operation produces that must not depend on the cache: (key, value as i64 list;
/// boundary distances are compared by their bit patterns)
fn eval(op: &LOp) -> Vec<(String, Vec<i64>)> {
    let bits = |d: &[f64]| d.iter().map(|x| x.to_bits() as i64).collect::<Vec<i64>>();
    match op {
        LOp::Bucket { v, table, hp } => vec![(key(v, *table, *hp), vec![vo::lsh_bucket(v, *table, *hp)])],
        LOp::BucketDist { v, table, hp } => {
            let (b, d) = vo::lsh_bucket_with_distances(v, *table, *hp);
            vec![(key(v, *table, *hp), vec![b]), (format!("dist|{}", key(v, *table, *hp)), bits(&d))]
        }
        LOp::Buckets { v, tables, hp } => vo::lsh_buckets(v, *tables, *hp).into_iter().enumerate().map(|(tb, b)| (key(v, tb as i64, *hp), vec![b])).collect(),
        LOp::MultiProbe { v, table, hp, k } => vec![(format!("mp{k}|{}", key(v, *table, *hp)), vo::lsh_multi_probe(v, *table, *hp, *k))],
        LOp::BucketI8 { v, table, hp } => vec![(format!("i8|{v:?}|{table}|{hp}"), vec![vo::lsh_bucket_int8(v, *table, *hp)])],
        LOp::BucketDistI8 { v, table, hp } => {
            let (b, d) = vo::lsh_bucket_with_distances_int8(v, *table, *hp);
            vec![(format!("i8|{v:?}|{table}|{hp}"), vec![b]), (format!("i8dist|{v:?}|{table}|{hp}"), bits(&d))]
        }
        LOp::MultiProbeI8 { v, table, hp, k } => vec![(format!("i8mp{k}|{v:?}|{table}|{hp}"), vo::lsh_multi_probe_int8(v, *table, *hp, *k))],
        LOp::Prewarm { table, hp, dim } => {
            vo::prewarm_lsh_cache(*table, *hp, *dim);
            vec![]
        }
        LOp::Clear => {
            vo::clear_lsh_cache();
            vec![]
        }
        LOp::Resize { n } => {
            vo::configure_lsh_cache_size(*n);
            vec![]
        }
    }
}

fn laws(v: &[f32], w: &[f32]) -> Result<u32, Failure> {
    let mut n = 0;
    if v.len() == w.len() && !v.is_empty() {
        let pairs: [(&str, f64, f64, f64); 3] = [
            ("euclidean", vo::euclidean_distance(v, w), vo::euclidean_distance(w, v), vo::euclidean_distance(v, v)),
            ("manhattan", vo::manhattan_distance(v, w), vo::manhattan_distance(w, v), vo::manhattan_distance(v, v)),
            ("cosine", vo::cosine_distance(v, w), vo::cosine_distance(w, v), vo::cosine_distance(v, v)),
        ];
        for (name, ab, ba, aa) in pairs {
            n += 1;
            if (ab - ba).abs() > 1e-9 * (1.0 + ab.abs()) {
                return Err(fail("law_symmetry", format!("{name}: d(a,b)={ab} d(b,a)={ba}")));
            }
            if ab < -1e-9 {
                return Err(fail("law_non_negative", format!("{name}: d={ab}")));
            }
            let nonzero = v.iter().any(|x| *x != 0.0);
            if (name != "cosine" || nonzero) && aa.abs() > 1e-6 {
                return Err(fail("law_identity", format!("{name}: d(a,a)={aa}")));
            }
            if name == "cosine" && !(-1e-9..=2.0 + 1e-9).contains(&ab) {
                return Err(fail("law_cosine_range", format!("cosine distance {ab}")));
            }
        }
    }
    // symmetric quantisation round trip stays within one quantisation step
    if !v.is_empty() && v.iter().all(|x| x.is_finite()) {
        let q = vo::quantize_vector_symmetric(v);
        let max_abs = v.iter().fold(0.0f32, |m, x| m.max(x.abs()));
        if max_abs > 0.0 {
            let scale = max_abs / 127.0;
            let back = vo::dequantize_vector_with_scale(&q, scale);
            n += 1;
            for (a, b) in v.iter().zip(&back) {
                if (a - b).abs() > scale * 1.001 {
                    return Err(fail("law_quantize_roundtrip", format!("{a} -> {b} (step {scale})")));
                }
            }
        }
    }
    Ok(n)
}

fn probe_laws(bucket: i64, hp: usize) -> Result<u32, Failure> {
    let n = 6;
    let p = vo::lsh_probes(bucket, hp, n);
    if p.is_empty() || p[0] != bucket {
        return Err(fail("law_probes_start", format!("bucket {bucket}: probes {p:?}")));
    }
    let mut seen = std::collections::BTreeSet::new();
    let mut prev = 0;
    for x in &p {
        if !seen.insert(*x) {
            return Err(fail("law_probes_distinct", format!("bucket {bucket}: probes {p:?}")));
        }
        let hd = vo::hamming_distance(bucket, *x);
        if hd < prev {
            return Err(fail("law_probes_hamming_order", format!("bucket {bucket}: probes {p:?}")));
        }
        prev = hd;
    }
    Ok(1)
}

pub fn exec(case: &LCase) -> LOutcome {
    let mut out = LOutcome::default();
    // pristine expectations, each on an empty cache
    let mut expected: BTreeMap<String, Vec<i64>> = BTreeMap::new();
    let mut all_vecs: Vec<Vec<f32>> = Vec::new();
    for t in &case.threads {
        for op in t {
            match op {
                LOp::Prewarm { .. } | LOp::Clear | LOp::Resize { .. } => continue,
                LOp::Bucket { v, .. } | LOp::BucketDist { v, .. } | LOp::Buckets { v, .. } | LOp::MultiProbe { v, .. } => all_vecs.push(v.clone()),
                _ => {}
            }
            // one value at a time on an empty cache (a Buckets call fills several tables)
            let singles: Vec<LOp> = match op {
                LOp::Buckets { v, tables, hp } => (0..*tables as i64).map(|tb| LOp::Bucket { v: v.clone(), table: tb, hp: *hp }).collect(),
                o => vec![o.clone()],
            };
            for o in singles {
                vo::clear_lsh_cache();
                vo::configure_lsh_cache_size(64);
                for (k, val) in eval(&o) {
                    expected.insert(k, val);
                }
            }
        }
    }
    vo::clear_lsh_cache();
    vo::configure_lsh_cache_size(64);
    let expected = Arc::new(expected);
    let errors: Arc<Mutex<Vec<Failure>>> = Arc::new(Mutex::new(Vec::new()));
    let checked = Arc::new(std::sync::atomic::AtomicU32::new(0));
    let mut bodies: Vec<Box<dyn FnOnce() + Send>> = Vec::new();
    for ops in &case.threads {
        let ops = ops.clone();
        let expected = expected.clone();
        let errors = errors.clone();
        let checked = checked.clone();
        bodies.push(Box::new(move || {
            for op in &ops {
                simsched::switch_point("op.invoke");
                let got = eval(op);
                for (k, b) in got {
                    checked.fetch_add(1, std::sync::atomic::Ordering::Relaxed);
                    if expected.get(&k) != Some(&b) {
                        errors.lock().expect("e").push(fail(
                            "lsh_bucket_depends_on_cache_state",
                            format!("{k}: got {b:?}, a pristine cache gives {:?}", expected.get(&k)),
                        ));
                    }
                }
            }
        }));
    }
    let strat = match &case.sched {
        None | Some(SchedSel::Serial) => simsched::Strategy::Serial,
        Some(SchedSel::Random { p_num }) => simsched::Strategy::RandomWalk { p_num: *p_num },
        Some(SchedSel::Pct { change_points }) => simsched::Strategy::Pct { change_points: change_points.clone() },
        Some(SchedSel::Hold { tid, nth }) => simsched::Strategy::Hold { tid: *tid, nth: *nth },
        Some(SchedSel::Replay(v)) => simsched::Strategy::Replay(v.clone()),
    };
    let rr = simsched::run(simsched::Config { seed: case.sched_seed, strategy: strat, max_steps: 20000 }, bodies);
    out.sched_choices = rr.choices.clone();
    out.sched_steps = rr.steps;
    out.site_hash = rr.site_hash;
    out.preemptions = rr.preemptions;
    out.buckets_checked = checked.load(std::sync::atomic::Ordering::Relaxed);
    out.evictions = vo::get_lsh_cache_stats().evictions as u64;
    let mut result: Result<(), Failure> = Ok(());
    if let Some(d) = rr.deadlock {
        out.deadlock = Some(d.clone());
        result = Err(fail("deadlock", d));
    } else if let Some((tid, msg)) = rr.panics.first() {
        result = Err(fail("panic", format!("thread t{tid}: {msg}")));
    } else if let Some(f) = errors.lock().expect("e").first().cloned() {
        result = Err(f);
    } else {
        // incidental pure laws on the vectors and buckets that flowed through the run
        let mut n = 0;
        'outer: for (i, v) in all_vecs.iter().enumerate() {
            let w = &all_vecs[(i + 1) % all_vecs.len()];
            match laws(v, w) {
                Ok(k) => n += k,
                Err(f) => {
                    result = Err(f);
                    break 'outer;
                }
            }
        }
        if result.is_ok() {
            for (k, b) in expected.iter().filter(|(k, v)| v.len() == 1 && !k.contains("dist")).take(16) {
                let hp: usize = k.rsplit('|').next().and_then(|s| s.parse().ok()).unwrap_or(8);
                match probe_laws(b[0], hp.min(62).max(1)) {
                    Ok(k) => n += k,
                    Err(f) => {
                        result = Err(f);
                        break;
                    }
                }
            }
        }
        out.law_checks = n;
    }
    match result {
        Ok(()) => out.status = "ok".into(),
        Err(f) => {
            out.status = "fail".into();
            out.failure = Some(f);
        }
    }
    let mut log = Vec::new();
    log.extend_from_slice(&out.sched_choices);
    log.extend_from_slice(format!("{:?}", expected).as_bytes());
    out.log_hash = fnv64(&log);
    out
}
