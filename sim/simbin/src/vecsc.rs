//! VEC: vector-index scenarios (DESIGN.md §8 C24, C25). The real HnswIndex (and hnsw_rs, whose
//! level draws come from the seeded entropy seam) is driven through histories of inserts, updates,
//! deletes, rebuilds, save/load cycles and searches; a brute-force model decides every search.

use crate::dur::{root_dir, Failure, FsCounters};
use crate::values::fnv64;
use inputlayer::hnsw_index::HnswIndex;
use inputlayer::index_manager::{DistanceMetric, HnswConfig, Index, IndexManager, IndexType, RegisteredIndex};
use serde::{Deserialize, Serialize};
use std::collections::BTreeMap;

#[derive(Clone, Debug, Serialize, Deserialize, PartialEq)]
#[serde(tag = "op", rename_all = "snake_case")]
pub enum VOp {
    Insert { id: usize, v: Vec<f32> },
    InsertBatch { entries: Vec<(usize, Vec<f32>)> },
    Delete { id: usize },
    /// rebuild from the model's live set
    Rebuild,
    Search { q: Vec<f32>, k: usize, ef: Option<usize> },
    /// save to disk, drop, load
    SaveLoad,
    /// save and load through IndexManager::save_indexes / load_indexes (registration metadata + index files)
    ManagerSaveLoad,
}

#[derive(Clone, Debug, Serialize, Deserialize, PartialEq, Default)]
pub struct VCase {
    pub seed: u64,
    /// "cosine" | "euclidean" | "dot" | "manhattan"
    pub metric: String,
    pub m: usize,
    pub ef_construction: usize,
    pub ef_search: usize,
    pub ops: Vec<VOp>,
}

#[derive(Clone, Debug, Serialize, Deserialize, Default)]
pub struct VOutcome {
    pub status: String,
    pub failure: Option<Failure>,
    pub log_hash: u64,
    pub state_hashes: Vec<u64>,
    pub steps_done: usize,
    pub searches: u32,
    pub exact_regime_searches: u32,
    pub rebuilds_seen: u32,
    pub save_loads: u32,
    pub max_live: usize,
    pub fs: FsCounters,
    pub events: u64,
    pub harness_error: Option<String>,
}

fn fail(oracle: &str, step: usize, detail: String) -> Failure {
    Failure { oracle: oracle.to_string(), step: step as i64, detail }
}

fn metric_of(s: &str) -> DistanceMetric {
    match s {
        "euclidean" => DistanceMetric::Euclidean,
        "dot" => DistanceMetric::DotProduct,
        "manhattan" => DistanceMetric::Manhattan,
        _ => DistanceMetric::Cosine,
    }
}

fn norm(v: &[f32]) -> f64 {
    v.iter().map(|x| (*x as f64) * (*x as f64)).sum::<f64>().sqrt()
}

/// Exact distance of the configured metric (f64 arithmetic on the original vectors).
fn exact(metric: &str, q: &[f32], v: &[f32]) -> f64 {
    match metric {
        "euclidean" => q.iter().zip(v).map(|(a, b)| (*a as f64 - *b as f64).powi(2)).sum::<f64>().sqrt(),
        "manhattan" => q.iter().zip(v).map(|(a, b)| (*a as f64 - *b as f64).abs()).sum(),
        m => {
            let (nq, nv) = (norm(q), norm(v));
            let cos = if nq > 0.0 && nv > 0.0 { q.iter().zip(v).map(|(a, b)| *a as f64 * *b as f64).sum::<f64>() / (nq * nv) } else { 0.0 };
            if m == "dot" {
                -cos
            } else {
                1.0 - cos
            }
        }
    }
}

fn close(a: f64, b: f64) -> bool {
    (a - b).abs() <= 2e-3 * (1.0 + a.abs().max(b.abs()))
}

pub fn exec(case: &VCase) -> VOutcome {
    let mut out = VOutcome::default();
    let mut log: Vec<u8> = Vec::new();
    let r = run(case, &mut out, &mut log);
    match r {
        Ok(()) => out.status = "ok".into(),
        Err(f) => {
            out.status = "fail".into();
            out.failure = Some(f);
        }
    }
    let c = simsys::counters();
    out.events = c.events;
    out.fs = FsCounters { events: c.events, writes: c.writes, fsyncs: c.fsyncs, renames: c.renames, unlinks: c.unlinks, creates: c.creates, truncates: c.truncates, ..Default::default() };
    out.log_hash = fnv64(&log);
    out
}

fn run(case: &VCase, out: &mut VOutcome, log: &mut Vec<u8>) -> Result<(), Failure> {
    let cfg = HnswConfig { m: case.m, ef_construction: case.ef_construction, ef_search: case.ef_search, metric: metric_of(&case.metric) };
    let mut idx = HnswIndex::new(cfg.clone());
    // model
    let mut live: BTreeMap<usize, Vec<f32>> = BTreeMap::new();
    let mut dim: usize = 0;
    let mut deletes_since_rebuild: usize = 0;
    let needs_norm = matches!(case.metric.as_str(), "cosine" | "dot");
    let dir = format!("{}/hnsw", root_dir());

    let model_insert = |live: &mut BTreeMap<usize, Vec<f32>>, dim: &mut usize, id: usize, v: &[f32]| -> bool {
        if v.is_empty() {
            return false;
        }
        if needs_norm && norm(v) <= 1e-10 {
            return false;
        }
        if *dim != 0 && *dim != v.len() {
            return false;
        }
        if *dim == 0 {
            *dim = v.len();
        }
        live.insert(id, v.to_vec());
        true
    };

    for (i, op) in case.ops.iter().enumerate() {
        match op {
            VOp::Insert { id, v } => {
                let r = idx.insert(*id, v);
                // model: a vector whose dimension differs is refused; dimension is fixed by the first accepted vector
                let mut d2 = dim;
                let mut l2 = live.clone();
                let ok = model_insert(&mut l2, &mut d2, *id, v);
                log.extend_from_slice(format!("{i} insert {id} -> {}\n", r.is_ok()).as_bytes());
                if r.is_ok() != ok {
                    // an insert into an index whose every vector was deleted may legitimately re-fix the dimension: leave open
                    if !(live.is_empty() && r.is_ok()) {
                        return Err(fail("insert_acceptance_differs", i, format!("insert id {id} dim {} -> {:?}, model accepts={ok} (index dim {dim})", v.len(), r)));
                    }
                    dim = v.len();
                    live.insert(*id, v.clone());
                } else if ok {
                    live = l2;
                    dim = d2;
                }
            }
            VOp::InsertBatch { entries } => {
                let r = idx.insert_batch(entries);
                log.extend_from_slice(format!("{i} insert_batch {} -> {}\n", entries.len(), r.is_ok()).as_bytes());
                if r.is_ok() {
                    // an accepted batch into an index whose every vector was deleted may legitimately re-fix the
                    // dimension (same leniency as for a single insert)
                    if live.is_empty() && !entries.is_empty() && entries.iter().all(|(_, v)| v.len() == entries[0].1.len()) {
                        dim = 0;
                    }
                    for (id, v) in entries {
                        let mut d2 = dim;
                        if !model_insert(&mut live, &mut d2, *id, v) {
                            return Err(fail("insert_acceptance_differs", i, format!("batch accepted entry id {id} dim {} that the model refuses", v.len())));
                        }
                        dim = d2;
                    }
                } else {
                    // a refused batch may have applied a prefix (engine-defined): resynchronise by rebuilding from the model
                    let lv: Vec<(usize, Vec<f32>)> = live.iter().map(|(k, v)| (*k, v.clone())).collect();
                    idx.rebuild(&lv).map_err(|e| fail("rebuild_failed", i, e))?;
                    deletes_since_rebuild = 0;
                }
            }
            VOp::Delete { id } => {
                let t_before = idx.tombstone_count();
                idx.delete(*id);
                live.remove(id);
                deletes_since_rebuild += 1;
                let t_after = idx.tombstone_count();
                if t_after < t_before + 1 {
                    // auto-compaction happened
                    out.rebuilds_seen += 1;
                    deletes_since_rebuild = t_after;
                }
                log.extend_from_slice(format!("{i} delete {id} tomb {t_after}\n").as_bytes());
                if live.is_empty() {
                    // dimension of an empty index is engine-defined after compaction
                }
            }
            VOp::Rebuild => {
                let lv: Vec<(usize, Vec<f32>)> = live.iter().map(|(k, v)| (*k, v.clone())).collect();
                idx.rebuild(&lv).map_err(|e| fail("rebuild_failed", i, e))?;
                deletes_since_rebuild = 0;
                if live.is_empty() {
                    dim = 0;
                }
                if idx.tombstone_count() != 0 {
                    return Err(fail("tombstones_after_rebuild", i, format!("{} tombstones right after rebuild", idx.tombstone_count())));
                }
            }
            VOp::SaveLoad => {
                let before = (idx.len(), idx.tombstone_count(), idx.dimension(), idx.metric(), idx.config().clone());
                idx.save(std::path::Path::new(&dir)).map_err(|e| fail("index_save_failed", i, e))?;
                let loaded = HnswIndex::load(std::path::Path::new(&dir)).map_err(|e| fail("index_load_failed", i, e))?;
                let after = (loaded.len(), loaded.tombstone_count(), loaded.dimension(), loaded.metric(), loaded.config().clone());
                out.save_loads += 1;
                if before != after {
                    return Err(fail("save_load_changes_index", i, format!("before {before:?} after {after:?}")));
                }
                idx = loaded;
            }
            VOp::ManagerSaveLoad => {
                // a copy of the index goes through the manager (the manager owns what it saves)
                let tmp = format!("{dir}-copy");
                idx.save(std::path::Path::new(&tmp)).map_err(|e| fail("index_save_failed", i, e))?;
                let copy = HnswIndex::load(std::path::Path::new(&tmp)).map_err(|e| fail("index_load_failed", i, e))?;
                let before = (idx.len(), idx.tombstone_count(), idx.dimension(), idx.metric(), idx.config().clone());
                let base = format!("{}/mgr", root_dir());
                let mut mgr = IndexManager::new();
                let reg = RegisteredIndex { name: "emb_idx".into(), relation: "docs".into(), column_idx: 1, column_name: "v".into(), index_type: IndexType::Hnsw(cfg.clone()) };
                mgr.register_index(reg).map_err(|e| fail("index_save_failed", i, e))?;
                let n = copy.len();
                mgr.set_materialized("emb_idx", Box::new(copy), n);
                mgr.save_indexes(std::path::Path::new(&base)).map_err(|e| fail("index_save_failed", i, e))?;
                let mut mgr2 = IndexManager::new();
                let loaded_n = mgr2.load_indexes(std::path::Path::new(&base)).map_err(|e| fail("index_load_failed", i, e))?;
                out.save_loads += 1;
                if loaded_n != 1 || !mgr2.has_index("emb_idx") {
                    return Err(fail("save_load_changes_index", i, format!("manager loaded {loaded_n} indexes, registered: {}", mgr2.has_index("emb_idx"))));
                }
                let Some(mat) = mgr2.get_materialized("emb_idx") else {
                    return Err(fail("save_load_changes_index", i, "index registered but not materialized after load".into()));
                };
                let after = (mat.index.len(), mat.index.tombstone_count(), mat.index.dimension(), mat.index.metric(), cfg.clone());
                let reg2 = mgr2.get_registered("emb_idx").map(|r| (r.relation.clone(), r.column_idx, r.column_name.clone(), format!("{:?}", r.index_type)));
                let want_reg = Some(("docs".to_string(), 1usize, "v".to_string(), format!("{:?}", IndexType::Hnsw(cfg.clone()))));
                if before != after || reg2 != want_reg || mat.tuple_count != before.0 || !mat.valid {
                    return Err(fail("save_load_changes_index", i, format!("manager: before {before:?} after {after:?}; registration {reg2:?}; tuple_count {} valid {}", mat.tuple_count, mat.valid)));
                }
                // the loaded index answers like the original
                if let Some((_, q)) = live.iter().next() {
                    let a = idx.search(q, 5, Some(live.len().max(8) + 8));
                    let b = mat.index.search(q, 5, Some(live.len().max(8) + 8));
                    let da: Vec<i64> = a.iter().map(|(_, d)| (d * 1e4).round() as i64).collect();
                    let db: Vec<i64> = b.iter().map(|(_, d)| (d * 1e4).round() as i64).collect();
                    if da != db {
                        return Err(fail("save_load_changes_index", i, format!("search before {a:?} after manager load {b:?}")));
                    }
                }
                // continue the history on the files the manager wrote
                idx = HnswIndex::load(std::path::Path::new(&format!("{base}/indexes/emb_idx"))).map_err(|e| fail("index_load_failed", i, e))?;
            }
            VOp::Search { q, k, ef } => {
                if dim != 0 && q.len() != dim {
                    continue;
                }
                if needs_norm && norm(q) <= 1e-10 {
                    continue;
                }
                out.searches += 1;
                let res = idx.search(q, *k, *ef);
                log.extend_from_slice(format!("{i} search k={k} ef={ef:?} -> {:?}\n", res.iter().map(|(id, d)| (*id, (d * 1e4).round() / 1e4)).collect::<Vec<_>>()).as_bytes());
                if res.len() > *k {
                    return Err(fail("more_than_k_results", i, format!("k={k}, got {}", res.len())));
                }
                let mut seen = std::collections::BTreeSet::new();
                let mut prev = f64::NEG_INFINITY;
                for (id, d) in &res {
                    if !seen.insert(*id) {
                        return Err(fail("duplicate_id_in_results", i, format!("id {id} twice in {res:?}")));
                    }
                    let Some(v) = live.get(id) else {
                        return Err(fail("dead_id_in_results", i, format!("id {id} is not live (deleted or never inserted); live ids {:?}", live.keys().collect::<Vec<_>>())));
                    };
                    let want = exact(&case.metric, q, v);
                    if !close(*d, want) {
                        return Err(fail("distance_not_exact", i, format!("id {id}: reported {d}, exact {want} ({} metric)", case.metric)));
                    }
                    if *d + 1e-9 < prev {
                        return Err(fail("results_not_sorted", i, format!("{res:?}")));
                    }
                    prev = *d;
                }
                let ef_eff = ef.unwrap_or(case.ef_search);
                if live.len() <= ef_eff && !live.is_empty() {
                    out.exact_regime_searches += 1;
                    let want_n = (*k).min(live.len());
                    if res.len() != want_n {
                        return Err(fail("too_few_results_in_exact_regime", i, format!("live {} <= ef {ef_eff}, k={k}: got {} results, want {want_n}", live.len(), res.len())));
                    }
                    let mut all: Vec<f64> = live.values().map(|v| exact(&case.metric, q, v)).collect();
                    all.sort_by(|a, b| a.partial_cmp(b).unwrap_or(std::cmp::Ordering::Equal));
                    for (j, (_, d)) in res.iter().enumerate() {
                        if !close(*d, all[j]) {
                            return Err(fail("not_true_nearest_in_exact_regime", i, format!("live {} <= ef {ef_eff}: result #{j} has distance {d}, true {j}-th nearest distance is {}", live.len(), all[j])));
                        }
                    }
                }
            }
        }
        // state invariants after every step (C25)
        out.max_live = out.max_live.max(live.len());
        if idx.metric() != metric_of(&case.metric) || idx.config() != &cfg {
            return Err(fail("config_changed", i, format!("{:?}", idx.config())));
        }
        if !live.is_empty() && idx.dimension() != dim {
            return Err(fail("dimension_differs", i, format!("index {} model {dim}", idx.dimension())));
        }
        if idx.tombstone_count() > deletes_since_rebuild {
            return Err(fail("tombstone_count_exceeds_deletes", i, format!("{} tombstones, {deletes_since_rebuild} deletes since the last rebuild", idx.tombstone_count())));
        }
        if idx.len() < live.len() {
            return Err(fail("live_vector_missing", i, format!("index holds {} vectors, model has {} live", idx.len(), live.len())));
        }
        if idx.len() != live.len() + idx.tombstone_count() {
            return Err(fail("stored_count_differs", i, format!("index stores {} vectors with {} tombstones, model has {} live identifiers", idx.len(), idx.tombstone_count(), live.len())));
        }
        out.state_hashes.push(fnv64(format!("{:?}", live).as_bytes()));
        out.steps_done += 1;
    }
    // final: the index contains exactly the live identifiers with their latest vectors (exact-regime probe per id)
    if !live.is_empty() {
        let big = live.len() + 8;
        for (id, v) in live.iter().take(12) {
            let res = idx.search(v, big, Some(big.max(64)));
            let ids: std::collections::BTreeSet<usize> = res.iter().map(|(i, _)| *i).collect();
            let want: std::collections::BTreeSet<usize> = live.keys().copied().collect();
            if ids != want {
                return Err(fail("final_id_set_differs", case.ops.len(), format!("exhaustive search returns ids {ids:?}, live {want:?}")));
            }
            let me = res.iter().find(|(i, _)| i == id).map(|(_, d)| *d).unwrap_or(f64::NAN);
            let zero = exact(&case.metric, v, v);
            if !close(me, zero) {
                return Err(fail("final_vector_differs", case.ops.len(), format!("id {id}: distance to its own latest vector is {me}, expected {zero}")));
            }
        }
    }
    Ok(())
}
