//! sim: deterministic simulator for inputlayer (single binary: libc seam + lock shims).
//!
//!   sim gen  --family <f> --seed <s> --from <i> --n <n> [--param k=v ...]   cases as JSON lines on stdout
//!   sim exec [--jobs N] [--timeout-s T]                                     cases (JSON lines, stdin) -> outcomes (stdout)
//!
//! Every case is executed in a freshly forked child process (DESIGN.md §7).

simsys::interpose!();

mod conc;
mod dur;
mod gen;
mod hsc;
mod incsc;
mod lshsc;
mod model;
mod runner;
mod values;
mod vecsc;

use serde::{Deserialize, Serialize};
use std::collections::VecDeque;
use std::io::{BufRead, Write};

#[derive(Clone, Debug, Serialize, Deserialize)]
#[serde(tag = "scenario", rename_all = "snake_case")]
pub enum AnyCase {
    Dur(dur::Case),
    Conc(conc::ConcCase),
    Hsc(hsc::HCase),
    Vec(vecsc::VCase),
    Lsh(lshsc::LCase),
    Inc(incsc::ICase),
}

static PANIC_MSG: std::sync::Mutex<Option<String>> = std::sync::Mutex::new(None);

fn real_ms() -> u64 {
    let mut ts = libc::timespec { tv_sec: 0, tv_nsec: 0 };
    unsafe { simsys::raw::syscall6(simsys::raw::SYS_CLOCK_GETTIME, 1, &mut ts as *mut _ as i64, 0, 0, 0, 0) };
    ts.tv_sec as u64 * 1000 + ts.tv_nsec as u64 / 1_000_000
}

fn child_run(case: &AnyCase) -> String {
    if std::env::var_os("VERIF_NOOP").is_some() {
        return "{\"status\":\"ok\"}".into();
    }
    let t0 = real_ms();
    let seed = match case {
        AnyCase::Dur(c) => c.seed,
        AnyCase::Conc(c) => c.seed,
        AnyCase::Hsc(c) => c.seed,
        AnyCase::Vec(c) => c.seed,
        AnyCase::Lsh(c) => c.seed,
        AnyCase::Inc(c) => c.seed,
    };
    simsys::reset_thread_ordinals();
    simsys::enable(simsys::SimConfig { root: dur::root_dir(), seed });
    std::panic::set_hook(Box::new(|info| {
        let mut msg = format!("{info}");
        if std::env::var_os("VERIF_BT").is_some() {
            let bt = format!("{}", std::backtrace::Backtrace::force_capture());
            let frames: Vec<&str> = bt.lines().filter(|l| l.contains("inputlayer") || l.contains("simbin") || l.contains("/src/")).take(40).collect();
            msg.push_str("\n");
            msg.push_str(&frames.join("\n"));
        }
        if let Ok(mut g) = PANIC_MSG.lock() {
            if g.is_none() {
                *g = Some(msg);
            }
        }
    }));
    let case2 = case.clone();
    let h = std::thread::Builder::new()
        .name("sim-main".into())
        .stack_size(64 << 20)
        .spawn(move || match &case2 {
            AnyCase::Dur(c) => serde_json::to_string(&dur::exec(c)).expect("serialise outcome"),
            AnyCase::Conc(c) => serde_json::to_string(&conc::exec(c)).expect("serialise outcome"),
            AnyCase::Hsc(c) => serde_json::to_string(&hsc::exec(c)).expect("serialise outcome"),
            AnyCase::Vec(c) => serde_json::to_string(&vecsc::exec(c)).expect("serialise outcome"),
            AnyCase::Lsh(c) => serde_json::to_string(&lshsc::exec(c)).expect("serialise outcome"),
            AnyCase::Inc(c) => serde_json::to_string(&incsc::exec(c)).expect("serialise outcome"),
        })
        .expect("spawn scenario thread");
    let out = match h.join() {
        Ok(s) => s,
        Err(_) => {
            let msg = PANIC_MSG.lock().ok().and_then(|g| g.clone()).unwrap_or_else(|| "panic".into());
            let o = dur::Outcome {
                status: "fail".into(),
                failure: Some(dur::Failure { oracle: "panic".into(), step: -2, detail: msg }),
                ..Default::default()
            };
            serde_json::to_string(&o).expect("serialise")
        }
    };
    let t1 = real_ms();
    simsys::disable_and_cleanup();
    let t2 = real_ms();
    if std::env::var_os("VERIF_TIMING").is_some() {
        return format!("{{\"status\":\"ok\",\"run_ms\":{},\"cleanup_ms\":{}}}", t1 - t0, t2 - t1);
    }
    out
}

fn arg_val(args: &[String], name: &str) -> Option<String> {
    args.iter().position(|a| a == name).and_then(|i| args.get(i + 1).cloned())
}

fn main() {
    let args: Vec<String> = std::env::args().collect();
    let cmd = args.get(1).map(String::as_str).unwrap_or("");
    match cmd {
        "gen" => {
            let family = arg_val(&args, "--family").expect("--family");
            let seed: u64 = arg_val(&args, "--seed").and_then(|s| s.parse().ok()).unwrap_or(1);
            let from: u64 = arg_val(&args, "--from").and_then(|s| s.parse().ok()).unwrap_or(0);
            let n: u64 = arg_val(&args, "--n").and_then(|s| s.parse().ok()).unwrap_or(1);
            let p1: u64 = arg_val(&args, "--p1").and_then(|s| s.parse().ok()).unwrap_or(0);
            let stdout = std::io::stdout();
            let mut w = std::io::BufWriter::new(stdout.lock());
            for i in from..from + n {
                let run_seed = seed.wrapping_mul(1 << 32).wrapping_add(i);
                let case = match family.as_str() {
                    "c11" => AnyCase::Dur(gen::c11_random(run_seed)),
                    "c11enum" => AnyCase::Dur(gen::c11_enum(i, 5, if p1 == 0 { 10000 } else { p1 as usize })),
                    "c12" => AnyCase::Dur(gen::c12_random(run_seed)),
                    "c13" => AnyCase::Dur(gen::c13_history(run_seed)),
                    "vec" => AnyCase::Vec(gen::vec_case(run_seed)),
                    "lsh" => AnyCase::Lsh(gen::lsh_case(run_seed)),
                    "c19w" => AnyCase::Inc(gen::c19w_case(run_seed)),
                    "c32" => AnyCase::Hsc(gen::c32_case(run_seed)),
                    "c33" => AnyCase::Hsc(gen::c33_case(run_seed)),
                    "c10" => AnyCase::Hsc(gen::c10_case(run_seed)),
                    "c18" => AnyCase::Hsc(gen::c18_case(run_seed, 0)),
                    "c19a" => AnyCase::Hsc(gen::c19a_case(run_seed)),
                    "c16h" => AnyCase::Hsc(gen::c16h_case(run_seed)),
                    "c04" => AnyCase::Hsc(gen::c18_case(run_seed, 1)),
                    "c15p" => AnyCase::Conc(gen::c15_persist(run_seed)),
                    "c15e" => AnyCase::Conc(gen::conc_engine(run_seed, 0)),
                    "c20" => AnyCase::Conc(gen::conc_engine(run_seed, 1)),
                    "c20h" => AnyCase::Conc(gen::conc_handler(run_seed, 0)),
                    "c20hw" => AnyCase::Conc(gen::conc_handler(run_seed, 1)),
                    "c17b" => AnyCase::Conc(gen::conc_engine(run_seed, 2)),
                    "c19b" => AnyCase::Conc(gen::conc_engine(run_seed, 3)),
                    "c14" => AnyCase::Dur(gen::c14_base(run_seed)),
                    "c16" => AnyCase::Dur(gen::c16_history(run_seed)),
                    "c17" => AnyCase::Dur(gen::c17_history(run_seed)),
                    "post_standard" => AnyCase::Dur(dur::Case { ops: gen::post_ops_standard(), ..Default::default() }),
                    "post_catalog" => AnyCase::Dur(dur::Case { ops: gen::post_ops_catalog(), ..Default::default() }),
                    other => {
                        eprintln!("unknown family {other}");
                        std::process::exit(2);
                    }
                };
                writeln!(w, "{}", serde_json::to_string(&case).expect("ser")).expect("write");
            }
        }
        "exec" => {
            let jobs: usize = arg_val(&args, "--jobs").and_then(|s| s.parse().ok()).unwrap_or(16);
            let timeout_s: u64 = arg_val(&args, "--timeout-s").and_then(|s| s.parse().ok()).unwrap_or(120);
            let stdin = std::io::stdin();
            let mut queue: VecDeque<(usize, AnyCase)> = VecDeque::new();
            for (i, line) in stdin.lock().lines().enumerate() {
                let line = line.expect("read stdin");
                if line.trim().is_empty() {
                    continue;
                }
                match serde_json::from_str::<AnyCase>(&line) {
                    Ok(c) => queue.push_back((i, c)),
                    Err(e) => {
                        eprintln!("bad case on line {i}: {e}");
                        std::process::exit(2);
                    }
                }
            }
            let n = queue.len();
            let mut results: Vec<Option<String>> = vec![None; n.max(queue.back().map_or(0, |x| x.0 + 1))];
            runner::run_pool(
                queue,
                jobs,
                std::time::Duration::from_secs(timeout_s),
                &|t: &(usize, AnyCase)| child_run(&t.1),
                &mut |t, res, _q| {
                    let s = match (res.json, res.abnormal) {
                        (Some(j), None) => {
                            // attach wall time
                            match serde_json::from_str::<serde_json::Value>(&j) {
                                Ok(mut v) => {
                                    v["wall_ms"] = serde_json::json!(res.wall_ms);
                                    v.to_string()
                                }
                                Err(_) => serde_json::json!({"status":"harness","harness_error":format!("unparsable child output: {}", &j[..j.len().min(200)])}).to_string(),
                            }
                        }
                        (_, Some(ab)) => serde_json::json!({"status":"abnormal","harness_error":ab,"wall_ms":res.wall_ms}).to_string(),
                        (None, None) => serde_json::json!({"status":"harness","harness_error":"child reported nothing","wall_ms":res.wall_ms}).to_string(),
                    };
                    results[t.0] = Some(s);
                },
            );
            let stdout = std::io::stdout();
            let mut w = std::io::BufWriter::new(stdout.lock());
            for r in results.into_iter().flatten() {
                writeln!(w, "{r}").expect("write");
            }
        }
        _ => {
            eprintln!("usage: sim gen|exec ...");
            std::process::exit(2);
        }
    }
}
