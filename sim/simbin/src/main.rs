simsys::interpose!();

fn main() {
    use std::io::Write;
    let root = format!("/dev/shm/verif-sim/{}", std::process::id());
    simsys::enable(simsys::SimConfig { root: root.clone(), seed: 7 });
    let h = std::thread::spawn(move || {
        let mut cfg = inputlayer::Config::default();
        cfg.storage.data_dir = std::path::PathBuf::from(format!("{root}/data"));
        let eng = inputlayer::StorageEngine::new(cfg).expect("engine");
        eng.insert_into("default", "r", vec![(1, 2), (3, 4)]).expect("insert");
        eng.save_all().expect("save");
        let m: std::collections::HashMap<u32, u32> = (0..5).map(|i| (i, i)).collect();
        println!("hash order {:?}", m.keys().collect::<Vec<_>>());
        println!("uuid-ish now {:?}", std::time::SystemTime::now());
    });
    h.join().expect("join");
    for ev in simsys::take_trace() {
        println!("{:4} {:9} {:6} {}", ev.ord, ev.kind, ev.len, ev.path);
    }
    println!("audit: {:?}", simsys::audit());
    println!("counters: {:?}", simsys::counters());
    std::io::stdout().flush().ok();
    simsys::disable_and_cleanup();
}
