//! Harness-side canonical value encoding: type tag + exact bits, independent of Value::eq/cmp/hash.

use inputlayer::{Tuple, Value};
use serde::{Deserialize, Serialize};
use std::sync::Arc;

#[derive(Clone, Debug, PartialEq, Eq, PartialOrd, Ord, Hash, Serialize, Deserialize)]
pub enum V {
    I32(i32),
    I64(i64),
    /// f64 bit pattern
    F64(u64),
    Str(String),
    Bool(bool),
    Null,
    Ts(i64),
    /// f32 bit patterns
    Vec(Vec<u32>),
    VecI8(Vec<i8>),
}

pub type T = Vec<V>;

impl V {
    pub fn to_value(&self) -> Value {
        match self {
            V::I32(x) => Value::Int32(*x),
            V::I64(x) => Value::Int64(*x),
            V::F64(b) => Value::Float64(f64::from_bits(*b)),
            V::Str(s) => Value::String(Arc::from(s.as_str())),
            V::Bool(b) => Value::Bool(*b),
            V::Null => Value::Null,
            V::Ts(t) => Value::Timestamp(*t),
            V::Vec(v) => Value::Vector(Arc::new(v.iter().map(|b| f32::from_bits(*b)).collect())),
            V::VecI8(v) => Value::VectorInt8(Arc::new(v.clone())),
        }
    }
    pub fn from_value(v: &Value) -> V {
        match v {
            Value::Int32(x) => V::I32(*x),
            Value::Int64(x) => V::I64(*x),
            Value::Float64(f) => V::F64(f.to_bits()),
            Value::String(s) => V::Str(s.to_string()),
            Value::Bool(b) => V::Bool(*b),
            Value::Null => V::Null,
            Value::Timestamp(t) => V::Ts(*t),
            Value::Vector(v) => V::Vec(v.iter().map(|f| f.to_bits()).collect()),
            Value::VectorInt8(v) => V::VecI8(v.as_ref().clone()),
        }
    }
    pub fn kind(&self) -> &'static str {
        match self {
            V::I32(_) => "i32",
            V::I64(_) => "i64",
            V::F64(_) => "f64",
            V::Str(_) => "str",
            V::Bool(_) => "bool",
            V::Null => "null",
            V::Ts(_) => "ts",
            V::Vec(_) => "vec",
            V::VecI8(_) => "veci8",
        }
    }
}

pub fn to_tuple(t: &T) -> Tuple {
    Tuple::new(t.iter().map(V::to_value).collect())
}
pub fn from_tuple(t: &Tuple) -> T {
    t.values().iter().map(V::from_value).collect()
}

/// splitmix64 PRNG: the only source of generated choices (one stream per purpose).
#[derive(Clone, Debug)]
pub struct Rng(pub u64);
impl Rng {
    pub fn new(seed: u64, purpose: u64) -> Self {
        let mut r = Rng(seed ^ purpose.wrapping_mul(0xD6E8FEB86659FD93));
        r.next();
        r
    }
    pub fn next(&mut self) -> u64 {
        self.0 = self.0.wrapping_add(0x9E3779B97F4A7C15);
        let mut z = self.0;
        z = (z ^ (z >> 30)).wrapping_mul(0xBF58476D1CE4E5B9);
        z = (z ^ (z >> 27)).wrapping_mul(0x94D049BB133111EB);
        z ^ (z >> 31)
    }
    pub fn below(&mut self, n: u64) -> u64 {
        if n == 0 {
            0
        } else {
            self.next() % n
        }
    }
    pub fn range(&mut self, lo: u64, hi_incl: u64) -> u64 {
        lo + self.below(hi_incl - lo + 1)
    }
    pub fn chance(&mut self, num: u64, den: u64) -> bool {
        self.below(den) < num
    }
    pub fn pick<'a, X>(&mut self, xs: &'a [X]) -> &'a X {
        &xs[self.below(xs.len() as u64) as usize]
    }
}

pub fn fnv64(bytes: &[u8]) -> u64 {
    let mut h = 0xcbf29ce484222325u64;
    for b in bytes {
        h ^= *b as u64;
        h = h.wrapping_mul(0x100000001b3);
    }
    h
}
