//! CONC: schedule scenarios (DESIGN.md §5, §6.3). 2-3 simulated client threads drive the real
//! StorageEngine / FilePersist / Handler concurrently under the baton scheduler; every operation
//! is recorded as invoke/return with the scheduler's global event sequence; the history is checked
//! against the sequential set model by a brute-force linearizability search. A crash may be placed
//! at any file-system event of the concurrent phase.

use crate::dur::{make_config, observe, CrashPlan, EngineCfg, Failure, FsCounters, ImageSel};
use crate::model::{Obs, StoreModel};
use crate::values::{fnv64, from_tuple, to_tuple, T};
use inputlayer::storage::persist::{FilePersist, PersistBackend, PersistConfig, Update};
use inputlayer::StorageEngine;
use serde::{Deserialize, Serialize};
use std::collections::{BTreeMap, BTreeSet};
use std::sync::atomic::{AtomicU64, Ordering};
use std::sync::{Arc, Mutex};

#[derive(Clone, Debug, Serialize, Deserialize, PartialEq)]
#[serde(tag = "op", rename_all = "snake_case")]
pub enum COp {
    Insert { kg: String, rel: String, tuples: Vec<T> },
    Delete { kg: String, rel: String, tuples: Vec<T> },
    /// whole relation through the snapshot (what every query starts from)
    Read { kg: String, rel: String },
    /// whole relation through the full query pipeline with persistent rules prepended
    Query { kg: String, rel: String, arity: usize },
    SaveAll,
    CompactAll,
    SaveKg { kg: String },
    CreateKg { kg: String },
    DropKg { kg: String },
    RegisterRule { kg: String, text: String },
    DropRule { kg: String, name: String },
    /// consistent read of a base relation from the incremental engine
    ReadConsistent { kg: String, rel: String },
    // handler level only: one conditional statement = one operation
    /// `-rel(X, Y) <- rel(X, Y), <col var> <cmp> <k>`
    CondDelete { kg: String, rel: String, col: usize, cmp: String, k: i64 },
    /// `-rel(X, Y), +rel(X, Z) <- rel(X, Y), <col var> <cmp> <k>, Z = Y + <add>`
    /// with `set_to`: `-rel(X, Y), +rel(X, <c>) <- rel(X, Y), <col var> <cmp> <k>` (the inserted tuples may all exist already)
    Update { kg: String, rel: String, col: usize, cmp: String, k: i64, add: i64, #[serde(default)] set_to: Option<i64> },
    // persistence layer alone
    PAppend { shard: String, updates: Vec<(T, u64, i64)> },
    PFlush { shard: String },
    PCompact { shard: String },
}

#[derive(Clone, Debug, Serialize, Deserialize, PartialEq)]
#[serde(rename_all = "snake_case")]
pub enum SchedSel {
    Serial,
    Random { p_num: u32 },
    Pct { change_points: Vec<u64> },
    Hold { tid: usize, nth: u64 },
    Replay(Vec<u8>),
}

#[derive(Clone, Debug, Serialize, Deserialize, PartialEq, Default)]
pub struct ConcCase {
    pub seed: u64,
    pub cfg: EngineCfg,
    /// "engine" | "persist"
    pub level: String,
    /// sequential set-up operations (engine level: COp executed before the threads start)
    pub setup: Vec<COp>,
    pub threads: Vec<Vec<COp>>,
    pub sched: Option<SchedSel>,
    pub sched_seed: u64,
    pub crash: Option<CrashPlan>,
    /// enable incremental maintenance on these knowledge graphs before the threads start
    #[serde(default)]
    pub incremental: Vec<String>,
    pub want_trace: bool,
}

#[derive(Clone, Debug, Serialize, Deserialize)]
pub struct OpRec {
    pub tid: usize,
    pub idx: usize,
    pub invoke: u64,
    pub ret: Option<u64>,
    pub op: COp,
    /// canonical result: Ok(..)/Err
    pub result: Option<Res>,
    /// the disk froze while this operation was running (its acknowledgement cannot be trusted)
    pub in_crash: bool,
}

#[derive(Clone, Debug, Serialize, Deserialize, PartialEq)]
#[serde(rename_all = "snake_case")]
pub enum Res {
    Ok,
    Err(String),
    Counts(usize, usize),
    Count(usize),
    Tuples(Vec<T>),
    Text(String),
}

#[derive(Clone, Debug, Serialize, Deserialize, Default)]
pub struct ConcOutcome {
    pub status: String,
    pub failure: Option<Failure>,
    pub events: u64,
    pub trace: Vec<(u64, String, String, usize)>,
    pub log_hash: u64,
    pub state_hashes: Vec<u64>,
    pub history: Vec<OpRec>,
    pub sched_choices: Vec<u8>,
    pub sched_steps: u64,
    pub site_hash: u64,
    pub preemptions: u64,
    pub deadlock: Option<String>,
    pub crash_fired: bool,
    pub crash_boundary: bool,
    pub crash_event: Option<(String, String)>,
    pub image: Option<ImageSel>,
    pub image_stats: (usize, usize, usize, usize),
    pub recoveries: u32,
    pub restarts: u32,
    pub fs: FsCounters,
    pub linearizations_tried: u64,
    pub final_obs: Option<Obs>,
    pub harness_error: Option<String>,
    pub second_crash_fired: bool,
    pub steps_done: usize,
}

static SEQ: AtomicU64 = AtomicU64::new(0);

fn next_seq() -> u64 {
    SEQ.fetch_add(1, Ordering::SeqCst)
}

fn fs_switch_hook(kind: &'static str, path: &str) {
    // static identity of the site: operation kind + file class
    let cls = if path.contains("wal") {
        "wal"
    } else if path.contains("/batches/") {
        "batch"
    } else if path.contains("/shards/") {
        "shard"
    } else if path.contains("knowledge_graphs.json") {
        "kgmeta"
    } else if path.contains("catalog.json") {
        "rules"
    } else if path.contains("schema.json") {
        "schema"
    } else {
        "other"
    };
    let mut s = String::with_capacity(16);
    s.push_str("fs:");
    s.push_str(kind);
    s.push(':');
    s.push_str(cls);
    simsched::switch_point(&s);
}

fn res_of<X, E: std::fmt::Display>(r: Result<X, E>, f: impl FnOnce(X) -> Res) -> Res {
    match r {
        Ok(x) => f(x),
        Err(e) => Res::Err(e.to_string()),
    }
}

fn sorted(mut v: Vec<T>) -> Vec<T> {
    v.sort();
    v
}

pub fn apply_engine(e: &StorageEngine, op: &COp) -> Res {
    match op {
        COp::Insert { kg, rel, tuples } => res_of(e.insert_tuples_into(kg, rel, tuples.iter().map(to_tuple).collect()), |(n, d)| Res::Counts(n, d)),
        COp::Delete { kg, rel, tuples } => res_of(e.delete_tuples_from(kg, rel, tuples.iter().map(to_tuple).collect()), Res::Count),
        COp::Read { kg, rel } => res_of(e.get_snapshot_for(kg), |s| {
            Res::Tuples(sorted(s.input_tuples.get(rel).map(|v| v.iter().map(from_tuple).collect()).unwrap_or_default()))
        }),
        COp::Query { kg, rel, arity } => {
            let vars: Vec<String> = (0..*arity).map(|i| format!("X{i}")).collect();
            let q = format!("cq({}) <- {}({})", vars.join(","), rel, vars.join(","));
            res_of(e.execute_query_with_rules_tuples_on(kg, &q), |ts| Res::Tuples(sorted(ts.iter().map(from_tuple).collect())))
        }
        COp::SaveAll => res_of(e.save_all(), |_| Res::Ok),
        COp::CompactAll => res_of(e.compact_all(), |_| Res::Ok),
        COp::SaveKg { kg } => res_of(e.save_knowledge_graph(kg), |_| Res::Ok),
        COp::CreateKg { kg } => res_of(e.create_knowledge_graph(kg), |_| Res::Ok),
        COp::DropKg { kg } => res_of(e.drop_knowledge_graph(kg), |_| Res::Ok),
        COp::RegisterRule { kg, text } => match inputlayer::statement::parse_rule_definition(text) {
            Ok(def) => res_of(e.register_rule_in(kg, &def), |x| Res::Text(format!("{x:?}"))),
            Err(pe) => Res::Err(format!("parse: {pe}")),
        },
        COp::DropRule { kg, name } => res_of(e.drop_rule_in(kg, name), |_| Res::Ok),
        COp::ReadConsistent { kg, rel } => {
            let r = e.with_kg_read(kg, |k| match k.incremental() {
                Some(inc) => inc.read_relation_consistent(rel).map(|ts| sorted(ts.iter().map(from_tuple).collect())),
                None => Err("incremental not enabled".to_string()),
            });
            match r {
                Ok(ts) => Res::Tuples(ts),
                Err(e) => Res::Err(e.to_string()),
            }
        }
        COp::CondDelete { .. } | COp::Update { .. } => Res::Err("handler-level op at engine level".into()),
        COp::PAppend { .. } | COp::PFlush { .. } | COp::PCompact { .. } => Res::Err("persist-level op at engine level".into()),
    }
}

fn first_number_after(msgs: &[String], marker: &str) -> Option<usize> {
    for m in msgs {
        if let Some(i) = m.find(marker) {
            let rest = &m[i + marker.len()..];
            let digits: String = rest.chars().skip_while(|c| !c.is_ascii_digit()).take_while(|c| c.is_ascii_digit()).collect();
            if let Ok(n) = digits.parse() {
                return Some(n);
            }
        }
    }
    None
}

/// The same operations as requests through the real Handler (`QueryJob::execute` via hook H1):
/// every statement is one operation for the history checker.
pub fn apply_handler(h: &inputlayer::protocol::handler::Handler, op: &COp) -> Res {
    use crate::hsc::tuple_lit;
    let run = |kg: &str, text: String| -> Result<Vec<String>, String> {
        h.verif_execute_sync(Some(kg.to_string()), text).map(|q| {
            let mut out = Vec::new();
            for t in &q.rows {
                for w in &t.values {
                    if let inputlayer::protocol::wire::WireValue::String(s) = w {
                        out.push(s.clone());
                    }
                }
            }
            out
        })
    };
    let var = |col: usize| if col == 0 { "X" } else { "Y" };
    match op {
        COp::Insert { kg, rel, tuples } => {
            let text = if tuples.len() == 1 { format!("+{rel}{}", tuple_lit(&tuples[0])) } else { format!("+{rel}[{}]", tuples.iter().map(tuple_lit).collect::<Vec<_>>().join(", ")) };
            match run(kg, text) {
                Ok(msgs) => match first_number_after(&msgs, "Inserted") {
                    Some(n) => Res::Counts(n, tuples.len().saturating_sub(n)),
                    None => Res::Err(format!("{msgs:?}")),
                },
                Err(e) => Res::Err(e),
            }
        }
        COp::Delete { kg, rel, tuples } => {
            let text = if tuples.len() == 1 { format!("-{rel}{}", tuple_lit(&tuples[0])) } else { format!("-{rel}[{}]", tuples.iter().map(tuple_lit).collect::<Vec<_>>().join(", ")) };
            match run(kg, text) {
                Ok(msgs) => match first_number_after(&msgs, "Deleted") {
                    Some(n) => Res::Count(n),
                    None => Res::Err(format!("{msgs:?}")),
                },
                Err(e) => Res::Err(e),
            }
        }
        COp::CondDelete { kg, rel, col, cmp, k } => match run(kg, format!("-{rel}(X, Y) <- {rel}(X, Y), {} {cmp} {k}", var(*col))) {
            Ok(msgs) => match first_number_after(&msgs, "Conditional delete:") {
                Some(n) => Res::Count(n),
                None => Res::Err(format!("{msgs:?}")),
            },
            Err(e) => Res::Err(e),
        },
        COp::Update { kg, rel, col, cmp, k, add, set_to } => match run(
            kg,
            match set_to {
                Some(c) => format!("-{rel}(X, Y), +{rel}(X, {c}) <- {rel}(X, Y), {} {cmp} {k}", var(*col)),
                None => format!("-{rel}(X, Y), +{rel}(X, Z) <- {rel}(X, Y), {} {cmp} {k}, Z = Y + {add}", var(*col)),
            },
        ) {
            Ok(msgs) => match first_number_after(&msgs, "Update:") {
                Some(n) => Res::Count(n),
                None => Res::Err(format!("{msgs:?}")),
            },
            Err(e) => Res::Err(e),
        },
        COp::Query { kg, rel, .. } | COp::Read { kg, rel } => {
            let n = arity_of(op);
            let vars: Vec<String> = (0..n).map(|i| format!("X{i}")).collect();
            match h.verif_execute_sync(Some(kg.clone()), format!("?{rel}({})", vars.join(", "))) {
                Ok(q) => {
                    let mut rows: Vec<T> = q.rows.iter().map(|t| t.values.iter().map(wire_v).collect()).collect();
                    rows.sort();
                    Res::Tuples(rows)
                }
                Err(e) => Res::Err(e),
            }
        }
        COp::RegisterRule { kg, text } => res_of(run(kg, format!("+{text}")), |m| Res::Text(format!("{m:?}"))),
        COp::DropRule { kg, name } => match run(kg, format!(".rule drop {name}")) {
            Ok(m) if m.iter().any(|x| x.contains("not found") || x.contains("does not exist")) => Res::Err(format!("{m:?}")),
            Ok(_) => Res::Ok,
            Err(e) => Res::Err(e),
        },
        other => {
            let g = h.get_storage();
            apply_engine(&g, other)
        }
    }
}

fn arity_of(op: &COp) -> usize {
    match op {
        COp::Query { arity, .. } => *arity,
        _ => 2,
    }
}

fn wire_v(w: &inputlayer::protocol::wire::WireValue) -> crate::values::V {
    use crate::values::V;
    use inputlayer::protocol::wire::WireValue as W;
    match w {
        W::Null => V::Null,
        W::Int32(x) => V::I64(*x as i64),
        W::Int64(x) => V::I64(*x),
        W::Float64(f) => V::F64(f.to_bits()),
        W::String(s) => V::Str(s.clone()),
        W::Bool(b) => V::Bool(*b),
        W::Timestamp(t) => V::Ts(*t),
        W::Vector(v) => V::Vec(v.iter().map(|f| f.to_bits()).collect()),
        W::VectorInt8(v) => V::VecI8(v.clone()),
        W::Bytes(b) => V::Str(format!("bytes:{b:?}")),
    }
}

pub fn apply_persist(p: &FilePersist, op: &COp) -> Res {
    match op {
        COp::PAppend { shard, updates } => {
            let ups: Vec<Update> = updates.iter().map(|(t, time, diff)| Update { data: to_tuple(t), time: *time, diff: *diff }).collect();
            let r = p.ensure_shard(shard).and_then(|_| p.append(shard, &ups));
            res_of(r, |_| Res::Ok)
        }
        COp::PFlush { shard } => res_of(p.flush(shard), |_| Res::Ok),
        COp::PCompact { shard } => res_of(p.compact(shard, 0), |_| Res::Ok),
        _ => Res::Err("engine-level op at persist level".into()),
    }
}

// ------------------------------------------------------------------------------------------------
// sequential model of the engine-level operations + linearizability search

#[derive(Clone, Debug, PartialEq, Eq, PartialOrd, Ord)]
struct MState {
    kgs: BTreeMap<String, BTreeMap<String, BTreeSet<T>>>,
    /// (kg, rule head) -> source relation it copies (only `h(X,Y) <- r(X,Y)` rules are used)
    rules: BTreeMap<(String, String), Vec<String>>,
}

enum Exp {
    Exact(Res),
    AnyOk,
    ErrClass,
    Any,
}

fn rule_source(text: &str) -> Option<(String, String)> {
    // "h(X, Y) <- r(X, Y)"
    let (head, body) = text.split_once("<-")?;
    let h = head.trim().split('(').next()?.trim().to_string();
    let b = body.trim().split('(').next()?.trim().to_string();
    Some((h, b))
}

fn model_apply(st: &mut MState, op: &COp) -> Exp {
    match op {
        COp::Insert { kg, rel, tuples } => {
            if st.rules.contains_key(&(kg.clone(), rel.clone())) {
                return Exp::ErrClass;
            }
            let Some(k) = st.kgs.get_mut(kg) else { return Exp::ErrClass };
            let r = k.entry(rel.clone()).or_default();
            let (mut n, mut d) = (0, 0);
            for t in tuples {
                if r.insert(t.clone()) {
                    n += 1
                } else {
                    d += 1
                }
            }
            Exp::Exact(Res::Counts(n, d))
        }
        COp::Delete { kg, rel, tuples } => {
            let Some(k) = st.kgs.get_mut(kg) else { return Exp::ErrClass };
            let mut n = 0;
            if let Some(r) = k.get_mut(rel) {
                let uniq: BTreeSet<&T> = tuples.iter().collect();
                for t in uniq {
                    if r.remove(t) {
                        n += 1;
                    }
                }
            }
            Exp::Exact(Res::Count(n))
        }
        COp::Read { kg, rel } | COp::ReadConsistent { kg, rel } => {
            let Some(k) = st.kgs.get(kg) else { return Exp::ErrClass };
            Exp::Exact(Res::Tuples(k.get(rel).map(|s| s.iter().cloned().collect()).unwrap_or_default()))
        }
        COp::Query { kg, rel, .. } => {
            let Some(k) = st.kgs.get(kg) else { return Exp::ErrClass };
            if let Some(srcs) = st.rules.get(&(kg.clone(), rel.clone())) {
                let mut out: BTreeSet<T> = BTreeSet::new();
                for s in srcs {
                    if let Some(r) = k.get(s) {
                        out.extend(r.iter().cloned());
                    }
                }
                return Exp::Exact(Res::Tuples(out.into_iter().collect()));
            }
            match k.get(rel) {
                Some(s) if !s.is_empty() => Exp::Exact(Res::Tuples(s.iter().cloned().collect())),
                // querying an unknown/empty relation: engine-defined (error or empty)
                _ => Exp::Any,
            }
        }
        COp::SaveAll | COp::CompactAll => Exp::Any,
        COp::SaveKg { kg } => {
            if st.kgs.contains_key(kg) {
                Exp::Any
            } else {
                Exp::ErrClass
            }
        }
        COp::CreateKg { kg } => {
            if st.kgs.contains_key(kg) {
                Exp::ErrClass
            } else {
                st.kgs.insert(kg.clone(), BTreeMap::new());
                Exp::AnyOk
            }
        }
        COp::DropKg { kg } => {
            if kg == "default" || !st.kgs.contains_key(kg) {
                Exp::ErrClass
            } else {
                st.kgs.remove(kg);
                let dead: Vec<(String, String)> = st.rules.keys().filter(|(k, _)| k == kg).cloned().collect();
                for d in dead {
                    st.rules.remove(&d);
                }
                Exp::AnyOk
            }
        }
        COp::RegisterRule { kg, text } => {
            if !st.kgs.contains_key(kg) {
                return Exp::ErrClass;
            }
            let Some((h, b)) = rule_source(text) else { return Exp::Any };
            let e = st.rules.entry((kg.clone(), h)).or_default();
            if !e.contains(&b) {
                e.push(b);
            }
            Exp::AnyOk
        }
        COp::DropRule { kg, name } => {
            if !st.kgs.contains_key(kg) {
                return Exp::ErrClass;
            }
            if st.rules.remove(&(kg.clone(), name.clone())).is_some() {
                Exp::AnyOk
            } else {
                Exp::ErrClass
            }
        }
        COp::CondDelete { kg, rel, col, cmp, k } => {
            let Some(g) = st.kgs.get_mut(kg) else { return Exp::ErrClass };
            let mut n = 0;
            if let Some(r) = g.get_mut(rel) {
                let before = r.len();
                r.retain(|t| !t.get(*col).and_then(int_of).is_some_and(|v| cmp_holds(v, cmp, *k)));
                n = before - r.len();
            }
            Exp::Exact(Res::Count(n))
        }
        COp::Update { kg, rel, col, cmp, k, add, set_to } => {
            let Some(g) = st.kgs.get_mut(kg) else { return Exp::ErrClass };
            let mut d = 0;
            if let Some(r) = g.get_mut(rel) {
                let matched: Vec<T> = r.iter().filter(|t| t.get(*col).and_then(int_of).is_some_and(|v| cmp_holds(v, cmp, *k))).cloned().collect();
                let mut ins = Vec::new();
                for t in &matched {
                    let mut nt = t.clone();
                    if let Some(y) = nt.get(1).and_then(int_of) {
                        nt[1] = crate::values::V::I64(set_to.unwrap_or(y + add));
                    }
                    ins.push(nt);
                }
                for t in &matched {
                    if r.remove(t) {
                        d += 1;
                    }
                }
                for t in ins {
                    r.insert(t);
                }
            }
            Exp::Exact(Res::Count(d))
        }
        COp::PAppend { .. } | COp::PFlush { .. } | COp::PCompact { .. } => Exp::Any,
    }
}

fn int_of(v: &crate::values::V) -> Option<i64> {
    match v {
        crate::values::V::I32(x) => Some(*x as i64),
        crate::values::V::I64(x) => Some(*x),
        _ => None,
    }
}

fn cmp_holds(v: i64, cmp: &str, k: i64) -> bool {
    match cmp {
        ">" => v > k,
        "<" => v < k,
        ">=" => v >= k,
        "<=" => v <= k,
        "=" => v == k,
        _ => v != k,
    }
}

fn op_kg(op: &COp) -> Option<&String> {
    match op {
        COp::Insert { kg, .. }
        | COp::Delete { kg, .. }
        | COp::Read { kg, .. }
        | COp::Query { kg, .. }
        | COp::SaveKg { kg }
        | COp::CreateKg { kg }
        | COp::DropKg { kg }
        | COp::RegisterRule { kg, .. }
        | COp::DropRule { kg, .. }
        | COp::CondDelete { kg, .. }
        | COp::Update { kg, .. }
        | COp::ReadConsistent { kg, .. } => Some(kg),
        _ => None,
    }
}

fn is_read(op: &COp) -> bool {
    matches!(op, COp::Read { .. } | COp::Query { .. } | COp::ReadConsistent { .. })
}

fn kg_in_transition(recs: &[OpRec], op: &COp) -> bool {
    let Some(kg) = op_kg(op) else { return false };
    recs.iter().any(|r| matches!(&r.op, COp::DropKg { kg: k } | COp::CreateKg { kg: k } if k == kg))
}

fn matches(exp: &Exp, got: &Res) -> bool {
    match exp {
        Exp::Any => true,
        Exp::AnyOk => !matches!(got, Res::Err(_)),
        Exp::ErrClass => matches!(got, Res::Err(_)),
        Exp::Exact(r) => r == got,
    }
}

fn mstate_from_obs(o: &Obs) -> MState {
    let mut st = MState { kgs: BTreeMap::new(), rules: BTreeMap::new() };
    for (k, ko) in &o.kgs {
        let mut rels = BTreeMap::new();
        for (r, ts) in &ko.rels {
            rels.insert(r.clone(), ts.iter().cloned().collect::<BTreeSet<T>>());
        }
        st.kgs.insert(k.clone(), rels);
        // rules: parse the clause lines of the describe text ("  1. d(X, Y) <- r(X, Y)")
        for (name, (_cnt, text)) in &ko.rules {
            let mut srcs = Vec::new();
            for line in text.lines() {
                if let Some((_, clause)) = line.trim().split_once(". ") {
                    if let Some((_h, b)) = rule_source(clause) {
                        if !srcs.contains(&b) {
                            srcs.push(b);
                        }
                    }
                }
            }
            st.rules.insert((k.clone(), name.clone()), srcs);
        }
    }
    st
}

fn facts_equal(st: &MState, o: &Obs) -> bool {
    let a: Vec<&String> = st.kgs.keys().collect();
    let b: Vec<&String> = o.kgs.keys().collect();
    if a != b {
        return false;
    }
    for (k, rels) in &st.kgs {
        let ko = &o.kgs[k];
        let live: BTreeMap<&String, Vec<T>> = rels.iter().filter(|(_, s)| !s.is_empty()).map(|(r, s)| (r, s.iter().cloned().collect())).collect();
        let obs: BTreeMap<&String, Vec<T>> = ko.rels.iter().map(|(r, v)| (r, v.clone())).collect();
        if live != obs {
            return false;
        }
        // rule names
        let mr: BTreeSet<&String> = st.rules.keys().filter(|(kk, _)| kk == k).map(|(_, h)| h).collect();
        let or: BTreeSet<&String> = ko.rules.keys().collect();
        if mr != or {
            return false;
        }
    }
    true
}

pub struct LinResult {
    pub ok: bool,
    pub tried: u64,
    pub why: String,
}

/// Search for a linearization of `recs` (completed ops must be included; `optional` ops may be
/// included or left out) that starts at `init`, reproduces every recorded result and ends in a
/// state whose facts equal `final_obs` (if given).
pub fn linearize(init: &Obs, recs: &[OpRec], optional: &[bool], final_obs: Option<&Obs>, check_results: &[bool]) -> LinResult {
    let n = recs.len();
    let mut tried = 0u64;
    let st0 = mstate_from_obs(init);
    let mut best_depth = 0usize;
    let mut best_why = String::new();

    fn rec(
        recs: &[OpRec],
        optional: &[bool],
        check_results: &[bool],
        final_obs: Option<&Obs>,
        done: u32,
        skipped: u32,
        st: &MState,
        tried: &mut u64,
        depth: usize,
        best_depth: &mut usize,
        best_why: &mut String,
        memo: &mut BTreeSet<(u32, u32, MState)>,
    ) -> bool {
        let n = recs.len();
        if *tried > 2_000_000 {
            return false;
        }
        if (done | skipped).count_ones() as usize == n {
            *tried += 1;
            return match final_obs {
                Some(o) => {
                    let ok = facts_equal(st, o);
                    if !ok && depth >= *best_depth {
                        *best_depth = depth;
                        *best_why = "every complete order ends in a state different from the observed final state".to_string();
                    }
                    ok
                }
                None => true,
            };
        }
        if !memo.insert((done, skipped, st.clone())) {
            return false;
        }
        for i in 0..n {
            let bit = 1u32 << i;
            if (done | skipped) & bit != 0 {
                continue;
            }
            // real-time order: every op that returned before i was invoked must already be placed
            let mut ready = true;
            for j in 0..n {
                if j == i || (done | skipped) & (1 << j) != 0 {
                    continue;
                }
                if let Some(rj) = recs[j].ret {
                    if rj < recs[i].invoke && !recs[j].in_crash {
                        ready = false;
                        break;
                    }
                }
            }
            if !ready {
                continue;
            }
            // option: leave an optional (in-flight) op out
            if optional[i] && rec(recs, optional, check_results, final_obs, done, skipped | bit, st, tried, depth, best_depth, best_why, memo) {
                return true;
            }
            let mut st2 = st.clone();
            let exp = model_apply(&mut st2, &recs[i].op);
            let mut ok = match (&recs[i].result, check_results[i]) {
                (Some(r), true) => matches(&exp, r),
                _ => true,
            };
            // A write/KG operation that reports an error has no effect. While the addressed
            // knowledge graph is being created or dropped by some operation of this history such a
            // refusal ("is being dropped", "not found") is a legal transient outcome in any order.
            let refused = matches!(&recs[i].result, Some(Res::Err(_))) && check_results[i] && !is_read(&recs[i].op) && kg_in_transition(recs, &recs[i].op);
            if !ok && refused {
                st2 = st.clone();
                ok = true;
            }
            // dropping an absent graph twice concurrently may report success for both callers
            if !ok && matches!((&recs[i].op, &recs[i].result), (COp::DropKg { .. }, Some(Res::Ok))) && kg_in_transition(recs, &recs[i].op) {
                ok = true;
            }
            if !ok {
                if depth >= *best_depth {
                    *best_depth = depth;
                    *best_why = format!(
                        "t{} op#{} {} returned {} which no sequential order explains at this point",
                        recs[i].tid,
                        recs[i].idx,
                        serde_json::to_string(&recs[i].op).unwrap_or_default(),
                        serde_json::to_string(&recs[i].result).unwrap_or_default()
                    );
                }
                continue;
            }
            if rec(recs, optional, check_results, final_obs, done | bit, skipped, &st2, tried, depth + 1, best_depth, best_why, memo) {
                return true;
            }
        }
        false
    }
    let mut memo = BTreeSet::new();
    let ok = rec(recs, optional, check_results, final_obs, 0, 0, &st0, &mut tried, 0, &mut best_depth, &mut best_why, &mut memo);
    let _ = n;
    LinResult { ok, tried, why: best_why }
}

// ------------------------------------------------------------------------------------------------

fn fail(oracle: &str, detail: String) -> Failure {
    Failure { oracle: oracle.to_string(), step: -1, detail }
}

fn to_strategy(s: &Option<SchedSel>) -> simsched::Strategy {
    match s {
        None | Some(SchedSel::Serial) => simsched::Strategy::Serial,
        Some(SchedSel::Random { p_num }) => simsched::Strategy::RandomWalk { p_num: *p_num },
        Some(SchedSel::Pct { change_points }) => simsched::Strategy::Pct { change_points: change_points.clone() },
        Some(SchedSel::Hold { tid, nth }) => simsched::Strategy::Hold { tid: *tid, nth: *nth },
        Some(SchedSel::Replay(v)) => simsched::Strategy::Replay(v.clone()),
    }
}

fn resolve_image(sel: &ImageSel) -> (simsys::Image, ImageSel) {
    crate::dur::resolve_image_pub(sel)
}

pub fn exec(case: &ConcCase) -> ConcOutcome {
    let mut out = ConcOutcome::default();
    let mut log: Vec<u8> = Vec::new();
    let r = if case.level == "persist" { exec_persist(case, &mut out, &mut log) } else { exec_engine(case, &mut out, &mut log) };
    match r {
        Ok(()) => out.status = "ok".into(),
        Err(f) => {
            out.status = "fail".into();
            out.failure = Some(f);
        }
    }
    let c = simsys::counters();
    out.fs = FsCounters {
        events: c.events,
        writes: c.writes,
        fsyncs: c.fsyncs,
        renames: c.renames,
        unlinks: c.unlinks,
        creates: c.creates,
        truncates: c.truncates,
        faults_errno: c.faults_errno.values().sum(),
        faults_short: c.faults_short,
        frozen_rejects: c.frozen_rejects,
    };
    let trace = simsys::take_trace();
    for ev in &trace {
        log.extend_from_slice(format!("fs {} {} {} {}\n", ev.ord, ev.kind, ev.path, ev.len).as_bytes());
    }
    if case.want_trace {
        out.trace = trace.iter().map(|e| (e.ord, e.kind.to_string(), e.path.clone(), e.len)).collect();
    }
    for h in &out.history {
        log.extend_from_slice(crate::dur::canon_paths(&serde_json::to_string(h).unwrap_or_default()).as_bytes());
    }
    log.extend_from_slice(&out.sched_choices);
    out.log_hash = fnv64(&log);
    out
}

struct Shared {
    history: Mutex<Vec<OpRec>>,
}

fn run_threads<F>(case: &ConcCase, out: &mut ConcOutcome, apply: F) -> Result<(), Failure>
where
    F: Fn(&COp) -> Res + Send + Sync + 'static,
{
    let shared = Arc::new(Shared { history: Mutex::new(Vec::new()) });
    let apply = Arc::new(apply);
    let mut bodies: Vec<Box<dyn FnOnce() + Send>> = Vec::new();
    for (tid, ops) in case.threads.iter().enumerate() {
        let ops = ops.clone();
        let shared = shared.clone();
        let apply = apply.clone();
        bodies.push(Box::new(move || {
            for (idx, op) in ops.iter().enumerate() {
                simsched::switch_point("op.invoke");
                let frozen_before = simsys::is_frozen();
                if frozen_before {
                    break; // the process is dead
                }
                let inv = next_seq();
                {
                    let mut h = shared.history.lock().expect("hist");
                    h.push(OpRec { tid, idx, invoke: inv, ret: None, op: op.clone(), result: None, in_crash: false });
                }
                let res = apply(op);
                let frozen_after = simsys::is_frozen();
                let ret = next_seq();
                let mut h = shared.history.lock().expect("hist");
                if let Some(r) = h.iter_mut().find(|r| r.tid == tid && r.idx == idx) {
                    r.ret = Some(ret);
                    r.result = Some(res);
                    r.in_crash = frozen_after;
                }
                if frozen_after {
                    break;
                }
            }
        }));
    }
    simsys::set_switch_hook(Some(fs_switch_hook));
    let rr = simsched::run(simsched::Config { seed: case.sched_seed, strategy: to_strategy(&case.sched), max_steps: 20000 }, bodies);
    simsys::set_switch_hook(None);
    out.sched_choices = rr.choices.clone();
    out.sched_steps = rr.steps;
    out.site_hash = rr.site_hash;
    out.preemptions = rr.preemptions;
    out.history = shared.history.lock().expect("hist").clone();
    out.history.sort_by_key(|r| r.invoke);
    if let Some(d) = rr.diverged {
        out.harness_error = Some(d);
    }
    if let Some(d) = rr.deadlock {
        out.deadlock = Some(d.clone());
        return Err(fail("deadlock", d));
    }
    if let Some((tid, msg)) = rr.panics.first() {
        return Err(fail("panic", format!("thread t{tid}: {msg}")));
    }
    Ok(())
}

fn exec_engine(case: &ConcCase, out: &mut ConcOutcome, log: &mut Vec<u8>) -> Result<(), Failure> {
    SEQ.store(0, Ordering::SeqCst);
    let cfg = make_config(&case.cfg);
    let engine = Arc::new(StorageEngine::new(cfg).map_err(|e| fail("open_failed", e.to_string()))?);
    for op in &case.setup {
        let r = apply_engine(&engine, op);
        log.extend_from_slice(crate::dur::canon_paths(&format!("setup {} -> {:?}\n", serde_json::to_string(op).unwrap_or_default(), r)).as_bytes());
    }
    for kg in &case.incremental {
        engine
            .with_kg_mut(kg, |k| k.enable_incremental().map_err(|e| e.to_string()))
            .map_err(|e| fail("harness", format!("enable_incremental: {e}")))?;
    }
    let init = observe(&engine).map_err(|d| fail("observe_failed", d))?;
    let base_ord = simsys::ordinal();
    if let Some(c) = &case.crash {
        let mut plan = simsys::FaultPlan::default();
        plan.crash_at = Some(base_ord + c.at);
        plan.crash_inflight_write = c.inflight_write;
        simsys::set_plan(plan);
    }
    let r = if case.level == "handler" {
        // requests through the real Handler; the engine is reached again through the handler's storage guard
        let eng = Arc::try_unwrap(engine).map_err(|_| fail("harness", "engine still shared".into()))?;
        let h = Arc::new(inputlayer::protocol::handler::Handler::new(eng));
        let h2 = h.clone();
        let r = run_threads(case, out, move |op| apply_handler(&h2, op));
        out.events = simsys::ordinal() - base_ord;
        r?;
        return finish_handler(&h, &init, out);
    } else {
        let e2 = engine.clone();
        run_threads(case, out, move |op| apply_engine(&e2, op))
    };
    out.events = simsys::ordinal() - base_ord;
    r?;
    let n = out.history.len();
    if n > 20 {
        return Err(fail("harness", "history too long for the checker".into()));
    }
    let crashed = simsys::is_frozen();
    if !crashed {
        let fin = observe(&engine).map_err(|d| fail("observe_failed", d))?;
        out.state_hashes.push(fnv64(serde_json::to_string(&fin).unwrap_or_default().as_bytes()));
        if let Some(d) = fin.has_duplicates() {
            return Err(fail("not_a_set", d));
        }
        let optional = vec![false; n];
        let checks = vec![true; n];
        let lr = linearize(&init, &out.history, &optional, Some(&fin), &checks);
        out.linearizations_tried = lr.tried;
        out.final_obs = Some(fin.clone());
        if !lr.ok {
            return Err(fail("not_linearizable", lr.why));
        }
        if case.crash.is_none() {
            // a clean restart reproduces the state the engine was serving after the concurrent phase
            // (facts, rule names and clause counts, schemas): nothing a racing operation wrote behind
            // the back of the live state may surface later
            drop(engine);
            out.restarts += 1;
            let engine = StorageEngine::new(make_config(&case.cfg)).map_err(|e| fail("post:reopen_failed", e.to_string()))?;
            let after = observe(&engine).map_err(|d| fail("observe_failed", d))?;
            if let Some(d) = after.diff_facts(&fin) {
                return Err(fail("post:restart_differs_facts", d));
            }
            if let Some(d) = after.diff_rules(&fin) {
                return Err(fail("post:restart_differs_rules", d));
            }
            if after.kgs.iter().any(|(k, ko)| fin.kgs.get(k).is_some_and(|b| b.schemas != ko.schemas)) {
                return Err(fail("post:restart_differs_schemas", format!("{:?}", after.kgs.iter().map(|(k, v)| (k, &v.schemas)).collect::<Vec<_>>())));
            }
            return Ok(());
        }
    }
    let Some(cp) = &case.crash else { return Ok(()) };
    // ---------------------------------------------------------------- crash + recovery
    if crashed {
        out.crash_fired = true;
        if let Some(ev) = simsys::crash_event() {
            out.crash_event = Some((ev.kind.to_string(), ev.path));
        }
    } else {
        simsys::freeze_now();
        out.crash_boundary = true;
    }
    drop(engine);
    let (img, sel) = resolve_image(&cp.image);
    let st = simsys::crash_restore(&img);
    out.image = Some(sel);
    out.image_stats = (st.ns_dropped, st.writes_dropped, st.torn, st.files_lost);
    out.recoveries += 1;
    let cfg = make_config(&case.cfg);
    let engine = StorageEngine::new(cfg).map_err(|e| fail("reopen_failed_after_crash", e.to_string()))?;
    let rec_obs = observe(&engine).map_err(|d| fail("observe_failed", d))?;
    if let Some(d) = rec_obs.has_duplicates() {
        return Err(fail("not_a_set", d));
    }
    // acknowledged ops must be explained; ops that were running when the disk froze (or never
    // returned) are optional; results of ops that overlapped the crash are not trusted.
    // Reads are left out of the recovery check: a reader may legitimately have observed the
    // in-memory effect of an operation that was still in flight (e.g. a drop that had not yet
    // been made durable) and that the crash then discarded. The properties promise durability
    // of *acknowledged* operations, not of everything some reader once saw.
    // The same holds for the *reports* of acknowledged writes (a delete may have reported "0
    // deleted" on a graph whose creation was still in flight and is now gone): after a crash only
    // effects are checked - every acknowledged, successful write must be part of the recovered
    // state; writes that reported an error have no effect and are left out.
    let writes: Vec<OpRec> = out
        .history
        .iter()
        .filter(|r| !is_read(&r.op))
        .filter(|r| r.in_crash || r.ret.is_none() || !matches!(r.result, Some(Res::Err(_))))
        .cloned()
        .collect();
    let optional: Vec<bool> = writes.iter().map(|r| r.in_crash || r.ret.is_none()).collect();
    let checks: Vec<bool> = vec![false; writes.len()];
    let lr = linearize(&init, &writes, &optional, Some(&rec_obs), &checks);
    out.linearizations_tried += lr.tried;
    out.final_obs = Some(rec_obs);
    if !lr.ok {
        return Err(fail("recovered_not_linearizable", lr.why));
    }
    // recovered store keeps working: a write + clean restart
    let t: T = vec![crate::values::V::I32(99), crate::values::V::I32(99)];
    engine.insert_tuples_into("default", "zz_live", vec![to_tuple(&t)]).map_err(|e| fail("post:op_failed", e.to_string()))?;
    let before = observe(&engine).map_err(|d| fail("observe_failed", d))?;
    drop(engine);
    out.restarts += 1;
    let engine = StorageEngine::new(make_config(&case.cfg)).map_err(|e| fail("post:reopen_failed", e.to_string()))?;
    let after = observe(&engine).map_err(|d| fail("observe_failed", d))?;
    if let Some(d) = after.diff_facts(&before) {
        return Err(fail("post:restart_differs_facts", d));
    }
    Ok(())
}

fn finish_handler(h: &inputlayer::protocol::handler::Handler, init: &Obs, out: &mut ConcOutcome) -> Result<(), Failure> {
    let n = out.history.len();
    if n > 20 {
        return Err(fail("harness", "history too long for the checker".into()));
    }
    let fin = {
        let g = h.get_storage();
        observe(&g).map_err(|d| fail("observe_failed", d))?
    };
    out.state_hashes.push(fnv64(serde_json::to_string(&fin).unwrap_or_default().as_bytes()));
    if let Some(d) = fin.has_duplicates() {
        return Err(fail("not_a_set", d));
    }
    let optional = vec![false; n];
    let checks = vec![true; n];
    let lr = linearize(init, &out.history, &optional, Some(&fin), &checks);
    out.linearizations_tried = lr.tried;
    out.final_obs = Some(fin);
    if !lr.ok {
        return Err(fail("not_linearizable", lr.why));
    }
    Ok(())
}

fn exec_persist(case: &ConcCase, out: &mut ConcOutcome, _log: &mut Vec<u8>) -> Result<(), Failure> {
    SEQ.store(0, Ordering::SeqCst);
    let pcfg = |case: &ConcCase| PersistConfig {
        path: std::path::PathBuf::from(format!("{}/persist", crate::dur::root_dir())),
        buffer_size: case.cfg.buffer_size,
        durability_mode: inputlayer::DurabilityMode::Immediate,
        max_wal_size_bytes: case.cfg.max_wal,
    };
    let p = Arc::new(FilePersist::new(pcfg(case)).map_err(|e| fail("open_failed", e.to_string()))?);
    let base_ord = simsys::ordinal();
    if let Some(c) = &case.crash {
        let mut plan = simsys::FaultPlan::default();
        plan.crash_at = Some(base_ord + c.at);
        plan.crash_inflight_write = c.inflight_write;
        simsys::set_plan(plan);
    }
    let p2 = p.clone();
    let r = run_threads(case, out, move |op| apply_persist(&p2, op));
    out.events = simsys::ordinal() - base_ord;
    r?;
    let crashed = simsys::is_frozen();
    // Expected contents per shard under the engine's recovery semantics (a tuple is present iff
    // its latest update by logical time is an insert): every acknowledged update must take part,
    // updates that were in flight at the crash may or may not.
    type Ups = Vec<(u64, i64)>;
    let mut acked: BTreeMap<(String, T), Ups> = BTreeMap::new();
    let mut maybe: BTreeMap<(String, T), Ups> = BTreeMap::new();
    let mut shards: BTreeSet<String> = BTreeSet::new();
    for r in &out.history {
        if let COp::PAppend { shard, updates } = &r.op {
            shards.insert(shard.clone());
            let ok = matches!(r.result, Some(Res::Ok)) && !r.in_crash;
            for (t, time, diff) in updates {
                let tgt = if ok { &mut acked } else { &mut maybe };
                tgt.entry((shard.clone(), t.clone())).or_default().push((*time, *diff));
            }
        }
    }
    fn present(ups: &[(u64, i64)]) -> bool {
        ups.iter().max_by_key(|(t, _)| *t).is_some_and(|(_, d)| *d > 0)
    }
    let check = |p: &FilePersist, label: &str| -> Result<(), Failure> {
        let mut got: BTreeMap<(String, T), Ups> = BTreeMap::new();
        for s in &shards {
            match p.read(s, 0) {
                Ok(ups) => {
                    for u in ups {
                        got.entry((s.clone(), from_tuple(&u.data))).or_default().push((u.time, u.diff));
                    }
                }
                Err(e) => {
                    if acked.keys().any(|(sh, _)| sh == s) {
                        return Err(fail(&format!("{label}acked_update_lost"), format!("read({s}) failed: {e}")));
                    }
                }
            }
        }
        let keys: BTreeSet<&(String, T)> = acked.keys().chain(maybe.keys()).chain(got.keys()).collect();
        for k in keys {
            let a = acked.get(k).cloned().unwrap_or_default();
            let m = maybe.get(k).cloned().unwrap_or_default();
            let g = got.get(k).cloned().unwrap_or_default();
            let have = present(&g);
            if a.is_empty() && m.is_empty() {
                if !g.is_empty() {
                    return Err(fail(&format!("{label}phantom_update"), format!("{k:?} stored as {g:?} but never appended")));
                }
                continue;
            }
            // some subset of the in-flight updates must explain the observed presence
            let mut ok = false;
            for mask in 0..(1u32 << m.len().min(8)) {
                let mut ups = a.clone();
                for (i, u) in m.iter().enumerate().take(8) {
                    if mask & (1 << i) != 0 {
                        ups.push(*u);
                    }
                }
                if present(&ups) == have {
                    ok = true;
                    break;
                }
            }
            if !ok {
                let oracle = if have { "stale_update_resurfaced" } else { "acked_update_lost" };
                return Err(fail(&format!("{label}{oracle}"), format!("{k:?}: acknowledged {a:?} in-flight {m:?} stored {g:?}")));
            }
        }
        Ok(())
    };
    if !crashed {
        check(&p, "")?;
    }
    if let Some(cp) = &case.crash {
        if crashed {
            out.crash_fired = true;
            if let Some(ev) = simsys::crash_event() {
                out.crash_event = Some((ev.kind.to_string(), ev.path));
            }
        } else {
            simsys::freeze_now();
            out.crash_boundary = true;
        }
        drop(p);
        let (img, sel) = resolve_image(&cp.image);
        let st = simsys::crash_restore(&img);
        out.image = Some(sel);
        out.image_stats = (st.ns_dropped, st.writes_dropped, st.torn, st.files_lost);
        out.recoveries += 1;
        let p = FilePersist::new(pcfg(case)).map_err(|e| fail("reopen_failed_after_crash", e.to_string()))?;
        check(&p, "recovered:")?;
        drop(p);
        out.restarts += 1;
        let p = FilePersist::new(pcfg(case)).map_err(|e| fail("post:reopen_failed", e.to_string()))?;
        check(&p, "recovered2:")?;
    } else {
        drop(p);
        out.restarts += 1;
        let p = FilePersist::new(pcfg(case)).map_err(|e| fail("reopen_failed", e.to_string()))?;
        check(&p, "reopened:")?;
    }
    Ok(())
}
