//! StoreModel: the trivially inspectable reference model (DESIGN.md §6.1) and the observation
//! type that the real engine's state is projected onto.

use crate::values::T;
use serde::{Deserialize, Serialize};
use std::collections::{BTreeMap, BTreeSet};

#[derive(Clone, Debug, Default, PartialEq, Eq, Serialize, Deserialize)]
pub struct KgModel {
    pub rels: BTreeMap<String, BTreeSet<T>>,
    /// rule name -> clause sources (registration order)
    pub rules: BTreeMap<String, Vec<String>>,
    /// relation -> schema source (column:type list)
    pub schemas: BTreeMap<String, Vec<(String, String)>>,
}

#[derive(Clone, Debug, Default, PartialEq, Eq, Serialize, Deserialize)]
pub struct StoreModel {
    pub kgs: BTreeMap<String, KgModel>,
}

impl StoreModel {
    pub fn new() -> Self {
        let mut m = StoreModel::default();
        m.kgs.insert("default".into(), KgModel::default());
        m
    }

    /// insert: returns Ok((new, dup)) or Err if the KG does not exist / relation is a rule head
    pub fn insert(&mut self, kg: &str, rel: &str, tuples: &[T]) -> Result<(usize, usize), String> {
        let k = self.kgs.get_mut(kg).ok_or("kg not found")?;
        if tuples.is_empty() {
            return Ok((0, 0));
        }
        if k.rules.contains_key(rel) {
            return Err("derived relation".into());
        }
        let arity = tuples[0].len();
        if tuples.iter().any(|t| t.len() != arity) {
            return Err("arity mismatch in batch".into());
        }
        if let Some(existing) = k.rels.get(rel) {
            if let Some(first) = existing.iter().next() {
                if first.len() != arity {
                    return Err("arity mismatch with relation".into());
                }
            }
        }
        let r = k.rels.entry(rel.to_string()).or_default();
        let (mut n, mut d) = (0, 0);
        for t in tuples {
            if r.insert(t.clone()) {
                n += 1;
            } else {
                d += 1;
            }
        }
        Ok((n, d))
    }

    pub fn delete(&mut self, kg: &str, rel: &str, tuples: &[T]) -> Result<usize, String> {
        let k = self.kgs.get_mut(kg).ok_or("kg not found")?;
        let mut n = 0;
        if let Some(r) = k.rels.get_mut(rel) {
            for t in tuples {
                if r.remove(t) {
                    n += 1;
                }
            }
        }
        Ok(n)
    }

    pub fn create_kg(&mut self, kg: &str) -> Result<(), String> {
        // names of the storage engine's own directories under the data directory are refused
        if kg == "persist" || kg == "metadata" {
            return Err("reserved".into());
        }
        if self.kgs.contains_key(kg) {
            return Err("exists".into());
        }
        self.kgs.insert(kg.to_string(), KgModel::default());
        Ok(())
    }

    pub fn drop_kg(&mut self, kg: &str) -> Result<(), String> {
        if kg == "default" {
            return Err("cannot drop default".into());
        }
        self.kgs.remove(kg).map(|_| ()).ok_or_else(|| "not found".to_string())
    }

    pub fn drop_relation(&mut self, kg: &str, rel: &str) -> Result<(), String> {
        let k = self.kgs.get_mut(kg).ok_or("kg not found")?;
        k.rels.remove(rel);
        k.schemas.remove(rel);
        k.rules.remove(rel);
        Ok(())
    }

    pub fn normalised(&self) -> Obs {
        let mut o = Obs::default();
        for (name, k) in &self.kgs {
            let mut ko = KgObs::default();
            for (r, ts) in &k.rels {
                if !ts.is_empty() {
                    ko.rels.insert(r.clone(), ts.iter().cloned().collect());
                }
            }
            for (r, cl) in &k.rules {
                ko.rules.insert(r.clone(), (cl.len(), String::new()));
            }
            for (r, s) in &k.schemas {
                ko.schemas.insert(r.clone(), format!("{s:?}"));
            }
            o.kgs.insert(name.clone(), ko);
        }
        o
    }
}

/// What the harness observes of the real engine, in canonical form.
#[derive(Clone, Debug, Default, PartialEq, Eq, Serialize, Deserialize)]
pub struct KgObs {
    /// sorted tuple lists (duplicates preserved so that "not a set" is visible); empty omitted
    pub rels: BTreeMap<String, Vec<T>>,
    /// rule name -> (clause count, describe text)
    pub rules: BTreeMap<String, (usize, String)>,
    pub schemas: BTreeMap<String, String>,
}

#[derive(Clone, Debug, Default, PartialEq, Eq, Serialize, Deserialize)]
pub struct Obs {
    pub kgs: BTreeMap<String, KgObs>,
}

impl Obs {
    /// Facts-only comparison against a model-derived observation; returns a description of the
    /// first difference.
    pub fn diff_facts(&self, want: &Obs) -> Option<String> {
        let a: Vec<&String> = self.kgs.keys().collect();
        let b: Vec<&String> = want.kgs.keys().collect();
        if a != b {
            return Some(format!("knowledge graphs: have {a:?} want {b:?}"));
        }
        for (k, ko) in &self.kgs {
            let w = &want.kgs[k];
            if ko.rels != w.rels {
                for r in ko.rels.keys().chain(w.rels.keys()) {
                    let x = ko.rels.get(r);
                    let y = w.rels.get(r);
                    if x != y {
                        return Some(format!("{k}:{r}: have {} want {}", fmt_rel(x), fmt_rel(y)));
                    }
                }
            }
        }
        None
    }
    /// Rules comparison: names and clause counts (and texts when both sides carry one).
    pub fn diff_rules(&self, want: &Obs) -> Option<String> {
        for (k, ko) in &self.kgs {
            let Some(w) = want.kgs.get(k) else { continue };
            let a: Vec<(&String, usize)> = ko.rules.iter().map(|(n, (c, _))| (n, *c)).collect();
            let b: Vec<(&String, usize)> = w.rules.iter().map(|(n, (c, _))| (n, *c)).collect();
            if a != b {
                return Some(format!("{k}: rules have {a:?} want {b:?}"));
            }
            for (n, (_, t)) in &ko.rules {
                let wt = &w.rules[n].1;
                if !t.is_empty() && !wt.is_empty() && t != wt {
                    return Some(format!("{k}: rule {n} text have {t:?} want {wt:?}"));
                }
            }
        }
        None
    }
    pub fn diff_schemas(&self, want: &Obs) -> Option<String> {
        for (k, ko) in &self.kgs {
            let Some(w) = want.kgs.get(k) else { continue };
            let a: Vec<&String> = ko.schemas.keys().collect();
            let b: Vec<&String> = w.schemas.keys().collect();
            if a != b {
                return Some(format!("{k}: schemas have {a:?} want {b:?}"));
            }
        }
        None
    }
    pub fn has_duplicates(&self) -> Option<String> {
        for (k, ko) in &self.kgs {
            for (r, ts) in &ko.rels {
                for w in ts.windows(2) {
                    if w[0] == w[1] {
                        return Some(format!("{k}:{r} holds {:?} twice", w[0]));
                    }
                }
            }
        }
        None
    }
}

pub fn fmt_rel(r: Option<&Vec<T>>) -> String {
    match r {
        None => "{}".into(),
        Some(ts) => {
            let mut s = String::from("{");
            for (i, t) in ts.iter().enumerate() {
                if i > 0 {
                    s.push(',');
                }
                if i >= 6 {
                    s.push_str("...");
                    break;
                }
                s.push_str(&format!("{t:?}"));
            }
            s.push('}');
            s
        }
    }
}
