//! Seeded generators for DUR cases. Every choice comes from `Rng` streams split by purpose
//! (config / workload / faults), so shrinking one dimension does not shift the others.

use crate::dur::{Case, EngineCfg, Op};
use crate::values::{Rng, T, V};

pub const P_CFG: u64 = 1;
pub const P_WORK: u64 = 2;
pub const P_VAL: u64 = 3;
pub const P_FAULT: u64 = 4;

pub fn int_tuple(a: i32, b: i32) -> T {
    vec![V::I32(a), V::I32(b)]
}

pub fn swarm_cfg(r: &mut Rng, immediate_only: bool) -> EngineCfg {
    EngineCfg {
        buffer_size: *r.pick(&[1usize, 2, 3, 10000, 10000]),
        max_wal: *r.pick(&[0u64, 0, 300, 2000]),
        durability: if immediate_only { "immediate".into() } else { r.pick(&["immediate", "batched", "async"]).to_string() },
        num_threads: *r.pick(&[1usize, 1, 2, 4]),
    }
}

#[derive(Clone, Debug)]
pub struct Mix {
    pub kgs: Vec<String>,
    pub rels: Vec<String>,
    pub n_tuples: usize,
    pub min_ops: usize,
    pub max_ops: usize,
    // weights
    pub w_insert: u64,
    pub w_delete: u64,
    pub w_save: u64,
    pub w_compact: u64,
    pub w_restart: u64,
    pub w_create_kg: u64,
    pub w_drop_kg: u64,
    pub w_drop_rel: u64,
    pub w_rule: u64,
    pub w_schema: u64,
    pub w_probe: u64,
}

impl Mix {
    pub fn data_only() -> Self {
        Mix {
            kgs: vec!["default".into()],
            rels: vec!["r".into()],
            n_tuples: 3,
            min_ops: 3,
            max_ops: 10,
            w_insert: 10,
            w_delete: 8,
            w_save: 3,
            w_compact: 3,
            w_restart: 3,
            w_create_kg: 0,
            w_drop_kg: 0,
            w_drop_rel: 0,
            w_rule: 0,
            w_schema: 0,
            w_probe: 0,
        }
    }
}

pub const RULE_BODIES: &[&str] = &[
    "{h}(X, Y) <- r(X, Y)",
    "{h}(X, Y) <- r(X, Z), r(Z, Y)",
    "{h}(X, Y) <- r(X, Y), X < Y",
    "{h}(X, Y) <- s(X, Y)",
    "{h}(X, Y) <- r(X, Y), !s(X, Y)",
    "{h}(X, Y) <- {h}(X, Z), r(Z, Y)",
    "{h}(X, Y) <- r(X, Y), Y = 2",
    "{h}(X, Y) <- r(X, Y), X >= 1, Y != 3",
];

pub fn gen_tuples(r: &mut Rng, n_dom: usize, max_batch: usize) -> Vec<T> {
    let k = r.range(1, max_batch as u64) as usize;
    (0..k)
        .map(|_| {
            let i = r.below(n_dom as u64) as i32;
            int_tuple(i + 1, (i * 7 + 2) % 5)
        })
        .collect()
}

pub fn gen_ops(r: &mut Rng, mix: &Mix) -> Vec<Op> {
    let n = r.range(mix.min_ops as u64, mix.max_ops as u64) as usize;
    let mut ops = Vec::new();
    let mut live_kgs: Vec<String> = vec!["default".into()];
    let mut rule_names: Vec<String> = Vec::new();
    let total = mix.w_insert + mix.w_delete + mix.w_save + mix.w_compact + mix.w_restart + mix.w_create_kg + mix.w_drop_kg + mix.w_drop_rel + mix.w_rule + mix.w_schema + mix.w_probe;
    while ops.len() < n {
        let mut x = r.below(total);
        let kg = if r.chance(9, 10) { r.pick(&live_kgs).clone() } else { r.pick(&mix.kgs).clone() };
        let rel = r.pick(&mix.rels).clone();
        macro_rules! take {
            ($w:expr) => {{
                if x < $w {
                    true
                } else {
                    x -= $w;
                    false
                }
            }};
        }
        if take!(mix.w_insert) {
            ops.push(Op::Insert { kg, rel, tuples: gen_tuples(r, mix.n_tuples, 3) });
        } else if take!(mix.w_delete) {
            ops.push(Op::Delete { kg, rel, tuples: gen_tuples(r, mix.n_tuples, 2) });
        } else if take!(mix.w_save) {
            if r.chance(1, 3) {
                ops.push(Op::SaveKg { kg });
            } else {
                ops.push(Op::SaveAll);
            }
        } else if take!(mix.w_compact) {
            if r.chance(1, 3) {
                ops.push(Op::CompactIfNeeded { threshold: r.range(1, 3) as usize });
            } else {
                ops.push(Op::CompactAll);
            }
        } else if take!(mix.w_restart) {
            ops.push(Op::Restart);
        } else if take!(mix.w_create_kg) {
            let k = r.pick(&mix.kgs).clone();
            if !live_kgs.contains(&k) {
                live_kgs.push(k.clone());
            }
            ops.push(Op::CreateKg { kg: k });
        } else if take!(mix.w_drop_kg) {
            let k = r.pick(&mix.kgs).clone();
            if k != "default" {
                live_kgs.retain(|x| x != &k);
            }
            ops.push(Op::DropKg { kg: k });
        } else if take!(mix.w_drop_rel) {
            ops.push(Op::DropRelation { kg, rel });
        } else if take!(mix.w_rule) {
            match r.below(6) {
                0..=2 => {
                    let h = if !rule_names.is_empty() && r.chance(1, 2) { r.pick(&rule_names).clone() } else { format!("d{}", r.below(3)) };
                    if !rule_names.contains(&h) {
                        rule_names.push(h.clone());
                    }
                    let body = r.pick(RULE_BODIES).replace("{h}", &h);
                    ops.push(Op::RegisterRule { kg, text: body });
                }
                3 => ops.push(Op::DropRule { kg, name: format!("d{}", r.below(3)) }),
                4 => ops.push(Op::ClearRule { kg, name: format!("d{}", r.below(3)) }),
                _ => ops.push(Op::RemoveRuleClause { kg, name: format!("d{}", r.below(3)), index: r.below(2) as usize }),
            }
        } else if take!(mix.w_schema) {
            if r.chance(2, 3) {
                let tys = ["int", "string", "float", "any"];
                let cols = vec![("a".to_string(), r.pick(&tys).to_string()), ("b".to_string(), r.pick(&tys).to_string())];
                ops.push(Op::RegisterSchema { kg, rel: format!("t{}", r.below(2)), cols });
            } else {
                ops.push(Op::RemoveSchema { kg, rel: format!("t{}", r.below(2)) });
            }
        } else {
            ops.push(Op::Probe);
        }
    }
    ops
}

/// C11: random histories of inserts/deletes/maintenance/restarts on one relation.
pub fn c11_random(seed: u64) -> Case {
    let mut rc = Rng::new(seed, P_CFG);
    let mut rw = Rng::new(seed, P_WORK);
    let mut mix = Mix::data_only();
    mix.n_tuples = rw.range(2, 3) as usize;
    mix.min_ops = 3;
    mix.max_ops = 12;
    if rw.chance(1, 3) {
        mix.rels = vec!["r".into(), "s".into()];
    }
    let mut ops = gen_ops(&mut rw, &mix);
    ops.push(Op::Restart);
    if rw.chance(1, 3) {
        ops.push(Op::Restart);
    }
    Case { seed, cfg: swarm_cfg(&mut rc, true), ops, check_model: true, ..Default::default() }
}

/// C11 bounded sub-space: all histories of length 1..=5 over the 7-symbol alphabet
/// {ins t1, ins t2, del t1, del t2, save, compact, restart}, followed by a final restart.
pub const C11_ALPHABET: usize = 7;
pub fn c11_space_size(max_len: usize) -> u64 {
    (1..=max_len).map(|l| (C11_ALPHABET as u64).pow(l as u32)).sum()
}
pub fn c11_enum(index: u64, max_len: usize, buffer_size: usize) -> Case {
    let mut idx = index;
    let mut len = 1;
    loop {
        let n = (C11_ALPHABET as u64).pow(len as u32);
        if idx < n || len == max_len {
            break;
        }
        idx -= n;
        len += 1;
    }
    let t1 = int_tuple(1, 2);
    let t2 = int_tuple(3, 4);
    let mut ops = Vec::new();
    for _ in 0..len {
        let sym = idx % C11_ALPHABET as u64;
        idx /= C11_ALPHABET as u64;
        let kg = "default".to_string();
        let rel = "r".to_string();
        ops.push(match sym {
            0 => Op::Insert { kg, rel, tuples: vec![t1.clone()] },
            1 => Op::Insert { kg, rel, tuples: vec![t2.clone()] },
            2 => Op::Delete { kg, rel, tuples: vec![t1.clone()] },
            3 => Op::Delete { kg, rel, tuples: vec![t2.clone()] },
            4 => Op::SaveAll,
            5 => Op::CompactAll,
            _ => Op::Restart,
        });
    }
    ops.push(Op::Restart);
    Case {
        seed: 1,
        cfg: EngineCfg { buffer_size, ..Default::default() },
        ops,
        check_model: true,
        ..Default::default()
    }
}

// ------------------------------------------------------------------------------------------ C12

pub fn gen_value(r: &mut Rng, kind: u64) -> V {
    match kind {
        0 => V::I32(*r.pick(&[0, 1, -1, i32::MAX, i32::MIN, 42, 7])),
        1 => V::I64(*r.pick(&[0i64, 1, -1, i64::MAX, i64::MIN, 1 << 40, 5])),
        2 => V::F64(*r.pick(&[
            0.0f64.to_bits(),
            (-0.0f64).to_bits(),
            1.5f64.to_bits(),
            2.0f64.to_bits(),
            f64::INFINITY.to_bits(),
            f64::NEG_INFINITY.to_bits(),
            (f64::MIN_POSITIVE / 2.0).to_bits(),
            1e300f64.to_bits(),
            0x7ff8000000000000,
            0x7ff8000000000001,
            0xfff8000000000000,
        ])),
        3 => V::Str(r.pick(&["", "a", "b", "he said \"hi\"", "line\nbreak", "tab\tz", "\u{1F600}", "back\\slash", "ünï", " lead", "null", "1"]).to_string()),
        4 => V::Bool(r.chance(1, 2)),
        5 => V::Null,
        6 => V::Ts(*r.pick(&[0i64, 5, -1, 1_700_000_000_000, i64::MAX, i64::MIN])),
        7 => {
            let dim = r.below(5) as usize;
            V::Vec((0..dim).map(|_| r.pick(&[0.0f32, -0.0, 1.0, -2.5, f32::MAX, f32::MIN_POSITIVE, 0.1]).to_bits()).collect())
        }
        _ => {
            let dim = r.below(5) as usize;
            V::VecI8((0..dim).map(|_| *r.pick(&[0i8, 1, -1, 127, -128])).collect())
        }
    }
}

/// C12: value swarm. mode 0 = homogeneous columns, 1 = pairwise mixed within a column, 2 = free mix
pub fn c12_random(seed: u64) -> Case {
    let mut rc = Rng::new(seed, P_CFG);
    let mut rw = Rng::new(seed, P_WORK);
    let mut rv = Rng::new(seed, P_VAL);
    let arity = rw.range(1, 3) as usize;
    let mode = rw.below(3);
    let col_kinds: Vec<u64> = (0..arity).map(|_| rv.below(9)).collect();
    let alt_kinds: Vec<u64> = (0..arity).map(|_| rv.below(9)).collect();
    let n_tuples = rw.range(1, 4) as usize;
    let mut tuples: Vec<T> = Vec::new();
    for i in 0..n_tuples {
        let t: T = (0..arity)
            .map(|c| {
                let k = match mode {
                    0 => col_kinds[c],
                    1 => {
                        if i % 2 == 0 {
                            col_kinds[c]
                        } else {
                            alt_kinds[c]
                        }
                    }
                    _ => rv.below(9),
                };
                gen_value(&mut rv, k)
            })
            .collect();
        tuples.push(t);
    }
    let mut ops = Vec::new();
    let rel = "vals".to_string();
    let kg = "default".to_string();
    // one insert per tuple or one batch
    if rw.chance(1, 2) {
        ops.push(Op::Insert { kg: kg.clone(), rel: rel.clone(), tuples: tuples.clone() });
    } else {
        for t in &tuples {
            ops.push(Op::Insert { kg: kg.clone(), rel: rel.clone(), tuples: vec![t.clone()] });
        }
    }
    // storage path: wal only / flushed / compacted / flushed at startup
    match rw.below(4) {
        0 => {}
        1 => ops.push(Op::SaveAll),
        2 => {
            ops.push(Op::SaveAll);
            ops.push(Op::CompactAll);
        }
        _ => {
            ops.push(Op::Restart);
        }
    }
    if rw.chance(1, 3) && !tuples.is_empty() {
        ops.push(Op::Delete { kg: kg.clone(), rel: rel.clone(), tuples: vec![tuples[0].clone()] });
    }
    ops.push(Op::Restart);
    if rw.chance(1, 2) {
        ops.push(Op::Restart);
    }
    let mut cfg = swarm_cfg(&mut rc, true);
    if rw.chance(1, 2) {
        cfg.buffer_size = *rw.pick(&[1usize, 2]);
    }
    Case { seed, cfg, ops, check_model: true, ..Default::default() }
}

// ------------------------------------------------------------------------------------------ C13

/// Histories for crash testing: data + maintenance + relation/KG drops, immediate durability.
pub fn c13_history(seed: u64) -> Case {
    let mut rc = Rng::new(seed, P_CFG);
    let mut rw = Rng::new(seed, P_WORK);
    let mut mix = Mix::data_only();
    mix.kgs = vec!["default".into(), "a".into()];
    mix.rels = vec!["r".into(), "s".into()];
    mix.n_tuples = 3;
    mix.min_ops = 2;
    mix.max_ops = 8;
    mix.w_insert = 10;
    mix.w_delete = 6;
    mix.w_save = 5;
    mix.w_compact = 4;
    mix.w_restart = 1;
    mix.w_create_kg = 2;
    mix.w_drop_kg = 2;
    mix.w_drop_rel = 2;
    let ops = gen_ops(&mut rw, &mix);
    let mut cfg = swarm_cfg(&mut rc, true);
    if rw.chance(1, 2) {
        cfg.buffer_size = *rw.pick(&[1usize, 2, 3]);
    }
    Case { seed, cfg, ops, check_model: true, ..Default::default() }
}

/// Post-crash operations (latent damage + bounded liveness): delete a tuple that may have been
/// recovered, re-insert, delete again, clean restart, fresh insert, probe through the query
/// pipeline, clean restart.
pub fn post_ops_standard() -> Vec<Op> {
    let kg = "default".to_string();
    let r = "r".to_string();
    vec![
        Op::Delete { kg: kg.clone(), rel: r.clone(), tuples: vec![int_tuple(1, 2)] },
        Op::Insert { kg: kg.clone(), rel: r.clone(), tuples: vec![int_tuple(1, 2), int_tuple(2, 4)] },
        Op::Delete { kg: kg.clone(), rel: r.clone(), tuples: vec![int_tuple(2, 4)] },
        Op::Restart,
        Op::Insert { kg: kg.clone(), rel: r.clone(), tuples: vec![int_tuple(9, 9)] },
        Op::Probe,
        Op::Restart,
    ]
}

// ------------------------------------------------------------------------------------------ C16

pub fn c16_history(seed: u64) -> Case {
    let mut rc = Rng::new(seed, P_CFG);
    let mut rw = Rng::new(seed, P_WORK);
    let mut mix = Mix::data_only();
    mix.kgs = if rw.chance(1, 2) { vec!["default".into()] } else { vec!["default".into(), "a".into()] };
    mix.rels = vec!["r".into(), "s".into()];
    mix.min_ops = 2;
    mix.max_ops = 8;
    mix.w_insert = 4;
    mix.w_delete = 1;
    mix.w_save = 1;
    mix.w_compact = 1;
    mix.w_restart = 2;
    mix.w_create_kg = if mix.kgs.len() > 1 { 2 } else { 0 };
    mix.w_drop_kg = 0;
    mix.w_drop_rel = 0;
    mix.w_rule = 12;
    mix.w_schema = 6;
    let ops = gen_ops(&mut rw, &mix);
    Case { seed, cfg: swarm_cfg(&mut rc, true), ops, check_model: true, ..Default::default() }
}

pub fn post_ops_catalog() -> Vec<Op> {
    let kg = "default".to_string();
    vec![
        Op::RegisterRule { kg: kg.clone(), text: "pz(X, Y) <- r(X, Y)".into() },
        Op::Insert { kg: kg.clone(), rel: "r".into(), tuples: vec![int_tuple(1, 2)] },
        Op::Restart,
        Op::DropRule { kg: kg.clone(), name: "pz".into() },
        Op::Restart,
    ]
}

// ------------------------------------------------------------------------------------------ C17

pub fn c17_history(seed: u64) -> Case {
    let mut rc = Rng::new(seed, P_CFG);
    let mut rw = Rng::new(seed, P_WORK);
    let mut mix = Mix::data_only();
    let pools: [&[&str]; 3] = [&["default", "a", "ab"], &["default", "a", "a_b", "ab"], &["default", "x", "default2"]];
    mix.kgs = rw.pick(&pools).iter().map(|s| s.to_string()).collect();
    mix.rels = vec!["r".into(), "s".into()];
    mix.min_ops = 4;
    mix.max_ops = 14;
    mix.w_insert = 10;
    mix.w_delete = 4;
    mix.w_save = 2;
    mix.w_compact = 2;
    mix.w_restart = 4;
    mix.w_create_kg = 6;
    mix.w_drop_kg = 6;
    mix.w_drop_rel = 2;
    mix.w_rule = 3;
    mix.w_schema = 2;
    let mut ops = gen_ops(&mut rw, &mix);
    ops.push(Op::Restart);
    Case { seed, cfg: swarm_cfg(&mut rc, true), ops, check_model: true, ..Default::default() }
}

// ------------------------------------------------------------------------------------------ C14

/// Base history for the maintenance twin runs: writes and probes only, no maintenance, no restarts.
pub fn c14_base(seed: u64) -> Case {
    let mut rw = Rng::new(seed, P_WORK);
    let mut mix = Mix::data_only();
    mix.kgs = vec!["default".into()];
    mix.rels = vec!["r".into(), "s".into()];
    mix.n_tuples = 4;
    mix.min_ops = 3;
    mix.max_ops = 10;
    mix.w_insert = 10;
    mix.w_delete = 6;
    mix.w_save = 0;
    mix.w_compact = 0;
    mix.w_restart = 0;
    mix.w_drop_rel = 1;
    mix.w_probe = 1;
    let ops = gen_ops(&mut rw, &mix);
    Case { seed, cfg: EngineCfg::default(), ops, check_model: true, ..Default::default() }
}
