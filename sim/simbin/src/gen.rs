//! Seeded generators for DUR cases. Every choice comes from `Rng` streams split by purpose
//! (config / workload / faults), so shrinking one dimension does not shift the others.

use crate::dur::{Case, EngineCfg, Op};
use crate::values::{Rng, T, V};

pub const P_CFG: u64 = 1;
pub const P_WORK: u64 = 2;
pub const P_VAL: u64 = 3;
pub const P_FAULT: u64 = 4;

pub fn int_tuple(a: i32, b: i32) -> T {
    vec![V::I32(a), V::I32(b)]
}

pub fn swarm_cfg(r: &mut Rng, immediate_only: bool) -> EngineCfg {
    EngineCfg {
        buffer_size: *r.pick(&[1usize, 2, 3, 4, 5, 8, 10000, 10000, 10000]),
        max_wal: *r.pick(&[0u64, 0, 0, 300, 1000, 2000]),
        durability: if immediate_only { "immediate".into() } else { r.pick(&["immediate", "batched", "async"]).to_string() },
        num_threads: *r.pick(&[1usize, 1, 2, 4]),
    }
}

#[derive(Clone, Debug)]
pub struct Mix {
    pub kgs: Vec<String>,
    pub rels: Vec<String>,
    pub n_tuples: usize,
    pub min_ops: usize,
    pub max_ops: usize,
    // weights
    pub w_insert: u64,
    pub w_delete: u64,
    pub w_save: u64,
    pub w_compact: u64,
    pub w_restart: u64,
    pub w_create_kg: u64,
    pub w_drop_kg: u64,
    pub w_drop_rel: u64,
    pub w_rule: u64,
    pub w_schema: u64,
    pub w_probe: u64,
}

impl Mix {
    pub fn data_only() -> Self {
        Mix {
            kgs: vec!["default".into()],
            rels: vec!["r".into()],
            n_tuples: 3,
            min_ops: 3,
            max_ops: 10,
            w_insert: 10,
            w_delete: 8,
            w_save: 3,
            w_compact: 3,
            w_restart: 3,
            w_create_kg: 0,
            w_drop_kg: 0,
            w_drop_rel: 0,
            w_rule: 0,
            w_schema: 0,
            w_probe: 0,
        }
    }
}

pub const RULE_BODIES: &[&str] = &[
    "{h}(X, Y) <- r(X, Y)",
    "{h}(X, Y) <- r(X, Z), r(Z, Y)",
    "{h}(X, Y) <- r(X, Y), X < Y",
    "{h}(X, Y) <- s(X, Y)",
    "{h}(X, Y) <- r(X, Y), !s(X, Y)",
    "{h}(X, Y) <- {h}(X, Z), r(Z, Y)",
    "{h}(X, Y) <- r(X, Y), Y = 2",
    "{h}(X, Y) <- r(X, Y), X >= 1, Y != 3",
    // term swarm: what the catalog has to print and re-parse faithfully
    "{h}(X, Z) <- r(X, Y), Z = Y + 1",
    "{h}(X, Z) <- r(X, Y), Z = Y * 2 - 1",
    "{h}(X, Z) <- r(X, Y), Z = (Y + 1) * 2",
    // a parenthesised group as the RIGHT operand, same and different precedence levels
    "{h}(X, Z) <- r(X, Y), Z = Y * (X % 2)",
    "{h}(X, Z) <- r(X, Y), Z = Y * (X / 2)",
    "{h}(X, Z) <- r(X, Y), Z = Y - (X - 1)",
    "{h}(X, Z) <- r(X, Y), Z = Y - (X + 1)",
    "{h}(X, Z) <- r(X, Y), Z = Y / (X * 2)",
    "{h}(X, Z) <- r(X, Y), Z = (Y % 3) * 2 + X",
    "{h}(X, Y) <- r(X, Y), Y > -1",
    "{h}(X, Y) <- r(X, Y), X <= 2.0",
    "{h}(X, Y) <- r(X, Y), X < 2.5",
    "{h}(X, \"lit\") <- r(X, _)",
    "{h}(X, \"he said \\\"hi\\\"\") <- r(X, _)",
    "{h}(X, -7) <- r(X, _)",
    "{h}(X, 2.0) <- r(X, _)",
    "{h}(X, true) <- r(X, _)",
    "{h}(X, Y) <- r(X, Y), s(Y, _)",
    "{h}(X, Y) <- r(X, Y), !s(Y, X), X != Y",
];

pub fn gen_tuples(r: &mut Rng, n_dom: usize, max_batch: usize) -> Vec<T> {
    if max_batch >= 3 && r.chance(1, 25) {
        // a large batch over a larger domain with repeats: one WAL record of several KiB
        // (crossing sectors and pages), size thresholds of bulk paths
        let k = *r.pick(&[32usize, 33, 40, 65, 130]);
        let dom = r.range(8, 50);
        return (0..k)
            .map(|_| {
                let i = r.below(dom) as i32;
                int_tuple(i + 1, (i * 7 + 2) % 5)
            })
            .collect();
    }
    let k = r.range(1, max_batch as u64) as usize;
    (0..k)
        .map(|_| {
            let i = r.below(n_dom as u64) as i32;
            int_tuple(i + 1, (i * 7 + 2) % 5)
        })
        .collect()
}

pub fn gen_ops(r: &mut Rng, mix: &Mix) -> Vec<Op> {
    let n = r.range(mix.min_ops as u64, mix.max_ops as u64) as usize;
    let mut ops = Vec::new();
    let mut live_kgs: Vec<String> = vec!["default".into()];
    let mut rule_names: Vec<String> = Vec::new();
    let total = mix.w_insert + mix.w_delete + mix.w_save + mix.w_compact + mix.w_restart + mix.w_create_kg + mix.w_drop_kg + mix.w_drop_rel + mix.w_rule + mix.w_schema + mix.w_probe;
    while ops.len() < n {
        let mut x = r.below(total);
        let kg = if r.chance(9, 10) { r.pick(&live_kgs).clone() } else { r.pick(&mix.kgs).clone() };
        let rel = r.pick(&mix.rels).clone();
        macro_rules! take {
            ($w:expr) => {{
                if x < $w {
                    true
                } else {
                    x -= $w;
                    false
                }
            }};
        }
        if take!(mix.w_insert) {
            ops.push(Op::Insert { kg, rel, tuples: gen_tuples(r, mix.n_tuples, 3) });
        } else if take!(mix.w_delete) {
            ops.push(Op::Delete { kg, rel, tuples: gen_tuples(r, mix.n_tuples, 2) });
        } else if take!(mix.w_save) {
            if r.chance(1, 3) {
                ops.push(Op::SaveKg { kg });
            } else {
                ops.push(Op::SaveAll);
            }
        } else if take!(mix.w_compact) {
            if r.chance(1, 3) {
                ops.push(Op::CompactIfNeeded { threshold: r.range(1, 3) as usize });
            } else {
                ops.push(Op::CompactAll);
            }
        } else if take!(mix.w_restart) {
            ops.push(Op::Restart);
        } else if take!(mix.w_create_kg) {
            let k = r.pick(&mix.kgs).clone();
            if !live_kgs.contains(&k) {
                live_kgs.push(k.clone());
            }
            ops.push(Op::CreateKg { kg: k });
        } else if take!(mix.w_drop_kg) {
            let k = r.pick(&mix.kgs).clone();
            if k != "default" {
                live_kgs.retain(|x| x != &k);
            }
            ops.push(Op::DropKg { kg: k });
        } else if take!(mix.w_drop_rel) {
            ops.push(Op::DropRelation { kg, rel });
        } else if take!(mix.w_rule) {
            match r.below(6) {
                0..=2 => {
                    let h = if !rule_names.is_empty() && r.chance(1, 2) { r.pick(&rule_names).clone() } else { format!("d{}", r.below(3)) };
                    if !rule_names.contains(&h) {
                        rule_names.push(h.clone());
                    }
                    let body = r.pick(RULE_BODIES).replace("{h}", &h);
                    ops.push(Op::RegisterRule { kg, text: body });
                }
                3 => ops.push(Op::DropRule { kg, name: format!("d{}", r.below(3)) }),
                4 => ops.push(Op::ClearRule { kg, name: format!("d{}", r.below(3)) }),
                _ => ops.push(Op::RemoveRuleClause { kg, name: format!("d{}", r.below(3)), index: r.below(2) as usize }),
            }
        } else if take!(mix.w_schema) {
            if r.chance(1, 6) {
                // dropping a relation removes its schema too - durably
                ops.push(Op::DropRelation { kg, rel: format!("t{}", r.below(2)) });
            } else if r.chance(2, 3) {
                let tys = ["int", "string", "float", "any"];
                let cols = vec![("a".to_string(), r.pick(&tys).to_string()), ("b".to_string(), r.pick(&tys).to_string())];
                ops.push(Op::RegisterSchema { kg, rel: format!("t{}", r.below(2)), cols });
            } else {
                ops.push(Op::RemoveSchema { kg, rel: format!("t{}", r.below(2)) });
            }
        } else {
            ops.push(Op::Probe);
        }
    }
    ops
}

/// C11, epoch-structured: 2-4 process lifetimes of 1-5 writes each over a 2-3 tuple domain, each ended by
/// optional maintenance (save / compact) and a clean restart - what the logical clock, the shard
/// frontiers and the start-up WAL drain see across several restarts.
fn c11_epochs(seed: u64) -> Case {
    let mut rc = Rng::new(seed, P_CFG);
    let mut rw = Rng::new(seed, P_WORK);
    let kg = "default".to_string();
    let dom = rw.range(2, 3) as i32;
    let rels: Vec<String> = if rw.chance(1, 4) { vec!["r".into(), "s".into()] } else { vec!["r".into()] };
    let one = |r: &mut Rng| {
        let i = r.below(dom as u64) as i32;
        int_tuple(i + 1, (i * 7 + 2) % 5)
    };
    let mut ops = Vec::new();
    for _ in 0..rw.range(2, 4) {
        for _ in 0..rw.range(1, 5) {
            let rel = rw.pick(&rels).clone();
            let k = rw.range(1, 2);
            let tuples: Vec<T> = (0..k).map(|_| one(&mut rw)).collect();
            if rw.chance(3, 5) {
                ops.push(Op::Insert { kg: kg.clone(), rel, tuples });
            } else {
                ops.push(Op::Delete { kg: kg.clone(), rel, tuples });
            }
        }
        match rw.below(6) {
            0 => ops.push(Op::SaveAll),
            1..=2 => ops.push(Op::CompactAll),
            3 => {
                ops.push(Op::SaveAll);
                ops.push(Op::CompactAll);
            }
            _ => {}
        }
        ops.push(Op::Restart);
    }
    Case { seed, cfg: swarm_cfg(&mut rc, true), ops, check_model: true, ..Default::default() }
}

/// C11: random histories of inserts/deletes/maintenance/restarts on one relation.
pub fn c11_random(seed: u64) -> Case {
    if seed % 2 == 1 {
        return c11_epochs(seed);
    }
    let mut rc = Rng::new(seed, P_CFG);
    let mut rw = Rng::new(seed, P_WORK);
    let mut mix = Mix::data_only();
    mix.n_tuples = rw.range(2, 3) as usize;
    mix.min_ops = 3;
    mix.max_ops = 12;
    if rw.chance(1, 3) {
        mix.rels = vec!["r".into(), "s".into()];
    }
    if rw.chance(1, 3) {
        // a relation that is dropped and written again
        mix.w_drop_rel = 2;
    }
    let mut ops = gen_ops(&mut rw, &mix);
    ops.push(Op::Restart);
    if rw.chance(1, 3) {
        ops.push(Op::Restart);
    }
    Case { seed, cfg: swarm_cfg(&mut rc, true), ops, check_model: true, ..Default::default() }
}

/// C11 bounded sub-space: all histories of length 1..=5 over the 7-symbol alphabet
/// {ins t1, ins t2, del t1, del t2, save, compact, restart}, followed by a final restart.
pub const C11_ALPHABET: usize = 7;
pub fn c11_space_size(max_len: usize) -> u64 {
    (1..=max_len).map(|l| (C11_ALPHABET as u64).pow(l as u32)).sum()
}
pub fn c11_enum(index: u64, max_len: usize, buffer_size: usize) -> Case {
    let mut idx = index;
    let mut len = 1;
    loop {
        let n = (C11_ALPHABET as u64).pow(len as u32);
        if idx < n || len == max_len {
            break;
        }
        idx -= n;
        len += 1;
    }
    let t1 = int_tuple(1, 2);
    let t2 = int_tuple(3, 4);
    let mut ops = Vec::new();
    for _ in 0..len {
        let sym = idx % C11_ALPHABET as u64;
        idx /= C11_ALPHABET as u64;
        let kg = "default".to_string();
        let rel = "r".to_string();
        ops.push(match sym {
            0 => Op::Insert { kg, rel, tuples: vec![t1.clone()] },
            1 => Op::Insert { kg, rel, tuples: vec![t2.clone()] },
            2 => Op::Delete { kg, rel, tuples: vec![t1.clone()] },
            3 => Op::Delete { kg, rel, tuples: vec![t2.clone()] },
            4 => Op::SaveAll,
            5 => Op::CompactAll,
            _ => Op::Restart,
        });
    }
    ops.push(Op::Restart);
    Case {
        seed: 1,
        cfg: EngineCfg { buffer_size, ..Default::default() },
        ops,
        check_model: true,
        ..Default::default()
    }
}

// ------------------------------------------------------------------------------------------ C12

pub fn gen_value(r: &mut Rng, kind: u64) -> V {
    match kind {
        0 => V::I32(*r.pick(&[0, 1, -1, i32::MAX, i32::MIN, 42, 7])),
        1 => V::I64(*r.pick(&[0i64, 1, -1, i64::MAX, i64::MIN, 1 << 40, 5])),
        2 => V::F64(*r.pick(&[
            0.0f64.to_bits(),
            (-0.0f64).to_bits(),
            1.5f64.to_bits(),
            2.0f64.to_bits(),
            f64::INFINITY.to_bits(),
            f64::NEG_INFINITY.to_bits(),
            (f64::MIN_POSITIVE / 2.0).to_bits(),
            1e300f64.to_bits(),
            0x7ff8000000000000,
            0x7ff8000000000001,
            0xfff8000000000000,
        ])),
        3 => {
            // mostly short strings; sometimes long ones (crossing 512-byte sectors, 4 KiB pages and 8 KiB buffers)
            if r.chance(1, 8) {
                let n = *r.pick(&[200usize, 511, 512, 513, 1500, 4096, 9000]);
                let c = *r.pick(&["x", "\u{e9}", "\"", "\\"]);
                V::Str(c.repeat(n))
            } else {
                V::Str(r.pick(&["", "a", "b", "he said \"hi\"", "line\nbreak", "tab\tz", "\u{1F600}", "back\\slash", "ünï", " lead", "null", "1", "NaN", "[1,2]", "\r\n", "\u{0}z"]).to_string())
            }
        }
        4 => V::Bool(r.chance(1, 2)),
        5 => V::Null,
        6 => V::Ts(*r.pick(&[0i64, 5, -1, 1_700_000_000_000, i64::MAX, i64::MIN])),
        7 => {
            let dim = *r.pick(&[0usize, 1, 1, 2, 2, 3, 4, 4, 8, 17, 64]);
            V::Vec(
                (0..dim)
                    .map(|_| {
                        r.pick(&[
                            0.0f32.to_bits(),
                            (-0.0f32).to_bits(),
                            1.0f32.to_bits(),
                            (-2.5f32).to_bits(),
                            f32::MAX.to_bits(),
                            f32::MIN_POSITIVE.to_bits(),
                            0.1f32.to_bits(),
                            f32::NAN.to_bits(),
                            0x7fc0_0001,
                            f32::INFINITY.to_bits(),
                            f32::NEG_INFINITY.to_bits(),
                            1u32, // smallest subnormal
                        ])
                        .clone()
                    })
                    .collect(),
            )
        }
        _ => {
            let dim = *r.pick(&[0usize, 1, 2, 3, 4, 8, 17, 64]);
            V::VecI8((0..dim).map(|_| *r.pick(&[0i8, 1, -1, 127, -128])).collect())
        }
    }
}

/// C12: value swarm. mode 0 = homogeneous columns, 1 = pairwise mixed within a column, 2 = free mix
pub fn c12_random(seed: u64) -> Case {
    let mut rc = Rng::new(seed, P_CFG);
    let mut rw = Rng::new(seed, P_WORK);
    let mut rv = Rng::new(seed, P_VAL);
    let arity = if rw.chance(1, 12) { rw.range(4, 6) as usize } else { rw.range(1, 3) as usize };
    let mode = rw.below(3);
    let col_kinds: Vec<u64> = (0..arity).map(|_| rv.below(9)).collect();
    let alt_kinds: Vec<u64> = (0..arity).map(|_| rv.below(9)).collect();
    let n_tuples = if rw.chance(1, 10) { *rw.pick(&[31usize, 33, 64, 70, 130]) } else { rw.range(1, 4) as usize };
    let mut tuples: Vec<T> = Vec::new();
    for i in 0..n_tuples {
        let t: T = (0..arity)
            .map(|c| {
                let k = match mode {
                    0 => col_kinds[c],
                    1 => {
                        if i % 2 == 0 {
                            col_kinds[c]
                        } else {
                            alt_kinds[c]
                        }
                    }
                    _ => rv.below(9),
                };
                gen_value(&mut rv, k)
            })
            .collect();
        tuples.push(t);
    }
    let mut ops = Vec::new();
    let rel = "vals".to_string();
    let kg = "default".to_string();
    // one insert per tuple or one batch
    if rw.chance(1, 2) {
        ops.push(Op::Insert { kg: kg.clone(), rel: rel.clone(), tuples: tuples.clone() });
    } else {
        for t in &tuples {
            ops.push(Op::Insert { kg: kg.clone(), rel: rel.clone(), tuples: vec![t.clone()] });
        }
    }
    // storage path: wal only / flushed / compacted / flushed at startup
    match rw.below(4) {
        0 => {}
        1 => ops.push(Op::SaveAll),
        2 => {
            ops.push(Op::SaveAll);
            ops.push(Op::CompactAll);
        }
        _ => {
            ops.push(Op::Restart);
        }
    }
    if rw.chance(1, 3) && !tuples.is_empty() {
        ops.push(Op::Delete { kg: kg.clone(), rel: rel.clone(), tuples: vec![tuples[0].clone()] });
    }
    ops.push(Op::Restart);
    if rw.chance(1, 2) {
        ops.push(Op::Restart);
    }
    let mut cfg = swarm_cfg(&mut rc, true);
    if rw.chance(1, 2) {
        cfg.buffer_size = *rw.pick(&[1usize, 2]);
    }
    Case { seed, cfg, ops, check_model: true, ..Default::default() }
}

// ------------------------------------------------------------------------------------------ C13

/// Histories for crash testing: data + maintenance + relation/KG drops, immediate durability.
pub fn c13_history(seed: u64) -> Case {
    let mut rc = Rng::new(seed, P_CFG);
    let mut rw = Rng::new(seed, P_WORK);
    let mut mix = Mix::data_only();
    mix.kgs = vec!["default".into(), "a".into()];
    mix.rels = vec!["r".into(), "s".into()];
    mix.n_tuples = 3;
    mix.min_ops = 2;
    mix.max_ops = 8;
    mix.w_insert = 10;
    mix.w_delete = 6;
    mix.w_save = 5;
    mix.w_compact = 4;
    mix.w_restart = 1;
    mix.w_create_kg = 2;
    mix.w_drop_kg = 2;
    mix.w_drop_rel = 2;
    let ops = gen_ops(&mut rw, &mix);
    let mut cfg = swarm_cfg(&mut rc, true);
    if rw.chance(1, 2) {
        cfg.buffer_size = *rw.pick(&[1usize, 2, 3]);
    }
    Case { seed, cfg, ops, check_model: true, ..Default::default() }
}

/// Post-crash operations (latent damage + bounded liveness): delete a tuple that may have been
/// recovered, re-insert, delete again, clean restart, fresh insert, probe through the query
/// pipeline, clean restart.
pub fn post_ops_standard() -> Vec<Op> {
    let kg = "default".to_string();
    let r = "r".to_string();
    vec![
        Op::Delete { kg: kg.clone(), rel: r.clone(), tuples: vec![int_tuple(1, 2)] },
        Op::Insert { kg: kg.clone(), rel: r.clone(), tuples: vec![int_tuple(1, 2), int_tuple(2, 4)] },
        Op::Delete { kg: kg.clone(), rel: r.clone(), tuples: vec![int_tuple(2, 4)] },
        Op::Restart,
        Op::Insert { kg: kg.clone(), rel: r.clone(), tuples: vec![int_tuple(9, 9)] },
        Op::Probe,
        Op::Restart,
    ]
}

// ------------------------------------------------------------------------------------------ C16

pub fn c16_history(seed: u64) -> Case {
    let mut rc = Rng::new(seed, P_CFG);
    let mut rw = Rng::new(seed, P_WORK);
    let mut mix = Mix::data_only();
    mix.kgs = if rw.chance(1, 2) { vec!["default".into()] } else { vec!["default".into(), "a".into()] };
    mix.rels = vec!["r".into(), "s".into()];
    mix.min_ops = 2;
    mix.max_ops = 8;
    mix.w_insert = 4;
    mix.w_delete = 1;
    mix.w_save = 1;
    mix.w_compact = 1;
    mix.w_restart = 2;
    mix.w_create_kg = if mix.kgs.len() > 1 { 2 } else { 0 };
    mix.w_drop_kg = 0;
    mix.w_drop_rel = 0;
    mix.w_rule = 12;
    mix.w_schema = 6;
    let ops = gen_ops(&mut rw, &mix);
    Case { seed, cfg: swarm_cfg(&mut rc, true), ops, check_model: true, ..Default::default() }
}

pub fn post_ops_catalog() -> Vec<Op> {
    let kg = "default".to_string();
    vec![
        Op::RegisterRule { kg: kg.clone(), text: "pz(X, Y) <- r(X, Y)".into() },
        Op::Insert { kg: kg.clone(), rel: "r".into(), tuples: vec![int_tuple(1, 2)] },
        Op::Restart,
        Op::DropRule { kg: kg.clone(), name: "pz".into() },
        Op::Restart,
    ]
}

// ------------------------------------------------------------------------------------------ C17

/// C17 template: two graphs whose "{graph}:{relation}" shard names are related (graph `a` +
/// relation `b_r` vs graph `a_b` + relation `r`; prefix pairs `a` / `ab`), both populated, some of
/// the data flushed, one graph dropped (maybe re-created), restarts.
fn c17_collision_template(seed: u64) -> Case {
    let mut rc = Rng::new(seed, P_CFG);
    let mut rw = Rng::new(seed, P_WORK);
    let (x, xy, rel_x, rel_xy) = *rw.pick(&[("a", "a_b", "b_r", "r"), ("a", "a_b", "b_r", "r"), ("a", "ab", "b_r", "r"), ("x", "x_y", "y_t", "t"), ("default", "default_2", "2_r", "r")]);
    let mut ops = Vec::new();
    if x != "default" {
        ops.push(Op::CreateKg { kg: x.into() });
    }
    ops.push(Op::CreateKg { kg: xy.into() });
    let tup = |r: &mut Rng| gen_tuples(r, 3, 3);
    let mut body = vec![
        Op::Insert { kg: x.into(), rel: rel_x.into(), tuples: tup(&mut rw) },
        Op::Insert { kg: xy.into(), rel: rel_xy.into(), tuples: tup(&mut rw) },
    ];
    for _ in 0..rw.range(1, 5) {
        body.push(match rw.below(8) {
            0 => Op::Insert { kg: x.into(), rel: rel_x.into(), tuples: tup(&mut rw) },
            1 => Op::Insert { kg: xy.into(), rel: rel_xy.into(), tuples: tup(&mut rw) },
            2 => Op::Insert { kg: x.into(), rel: rel_xy.into(), tuples: tup(&mut rw) },
            3 => Op::SaveAll,
            4 => Op::SaveKg { kg: x.into() },
            5 => Op::SaveKg { kg: xy.into() },
            6 => Op::CompactAll,
            _ => Op::Delete { kg: x.into(), rel: rel_x.into(), tuples: tup(&mut rw) },
        });
    }
    // seeded shuffle (the two base inserts stay in the list, order varies)
    for i in (1..body.len()).rev() {
        let j = rw.below(i as u64 + 1) as usize;
        body.swap(i, j);
    }
    ops.extend(body);
    if rw.chance(1, 4) {
        ops.push(Op::Restart);
    }
    let dropped = if x != "default" && rw.chance(1, 3) { x } else { xy };
    let kept = if dropped == x { xy } else { x };
    ops.push(Op::DropKg { kg: dropped.into() });
    for _ in 0..rw.below(3) {
        ops.push(match rw.below(5) {
            0 => Op::Insert { kg: kept.into(), rel: "z".into(), tuples: tup(&mut rw) },
            1 => Op::SaveKg { kg: kept.into() },
            2 => Op::CreateKg { kg: dropped.into() },
            3 => Op::Insert { kg: dropped.into(), rel: rel_xy.into(), tuples: tup(&mut rw) },
            _ => Op::Probe,
        });
    }
    ops.push(Op::Restart);
    if rw.chance(1, 2) {
        ops.push(Op::CreateKg { kg: dropped.into() });
        ops.push(Op::Restart);
    }
    let mut cfg = swarm_cfg(&mut rc, true);
    if rw.chance(1, 2) {
        cfg.buffer_size = *rw.pick(&[1usize, 2, 3]);
    }
    Case { seed, cfg, ops, check_model: true, ..Default::default() }
}

pub fn c17_history(seed: u64) -> Case {
    if seed % 4 == 3 {
        return c17_collision_template(seed);
    }
    let mut rc = Rng::new(seed, P_CFG);
    let mut rw = Rng::new(seed, P_WORK);
    let mut mix = Mix::data_only();
    // the last pool holds names of directories the storage engine itself keeps under the data directory
    let pools: [&[&str]; 4] = [&["default", "a", "ab"], &["default", "a", "a_b", "ab"], &["default", "x", "default2"], &["default", "persist", "metadata", "a"]];
    mix.kgs = rw.pick(&pools).iter().map(|s| s.to_string()).collect();
    // relation names with '_' so that "{kg}:{relation}" shard names of different graphs can map to
    // similar file names (graph a + relation b_r vs graph a_b + relation r)
    mix.rels = if rw.chance(1, 2) { vec!["r".into(), "s".into()] } else { vec!["r".into(), "b_r".into()] };
    mix.min_ops = 4;
    mix.max_ops = 14;
    mix.w_insert = 10;
    mix.w_delete = 4;
    mix.w_save = 2;
    mix.w_compact = 2;
    mix.w_restart = 4;
    mix.w_create_kg = 6;
    mix.w_drop_kg = 6;
    mix.w_drop_rel = 2;
    mix.w_rule = 3;
    mix.w_schema = 2;
    let mut ops = gen_ops(&mut rw, &mix);
    ops.push(Op::Restart);
    Case { seed, cfg: swarm_cfg(&mut rc, true), ops, check_model: true, ..Default::default() }
}

// ------------------------------------------------------------------------------------------ C14

/// Base history for the maintenance twin runs: writes and probes only, no maintenance, no restarts.
pub fn c14_base(seed: u64) -> Case {
    if seed % 2 == 0 {
        // several process lifetimes of a few writes each over a tiny tuple domain (maintenance and knobs
        // are woven in by the twin construction): clock, frontiers and WAL drain across restarts
        let mut e = c11_epochs(seed);
        e.ops.retain(|o| !o.is_maintenance());
        if matches!(e.ops.last(), Some(Op::Restart)) {
            e.ops.pop();
        }
        e.cfg = EngineCfg::default();
        return e;
    }
    let mut rw = Rng::new(seed, P_WORK);
    let mut mix = Mix::data_only();
    mix.kgs = vec!["default".into()];
    mix.rels = vec!["r".into(), "s".into()];
    mix.n_tuples = 4;
    mix.min_ops = 3;
    mix.max_ops = 10;
    mix.w_insert = 10;
    mix.w_delete = 6;
    mix.w_save = 0;
    mix.w_compact = 0;
    // restarts are part of the base history (both twins restart at the same points): maintenance must
    // stay invisible across several process lifetimes, not only up to the first restart
    mix.w_restart = 0;
    mix.w_drop_rel = 1;
    mix.w_probe = 1;
    let ops = gen_ops(&mut rw, &mix);
    Case { seed, cfg: EngineCfg::default(), ops, check_model: true, ..Default::default() }
}

// ------------------------------------------------------------------------------------------ CONC

use crate::conc::{COp, ConcCase, SchedSel};

pub fn gen_sched(r: &mut Rng, n_threads: usize) -> SchedSel {
    match r.below(10) {
        0 => SchedSel::Serial,
        1..=4 => SchedSel::Random { p_num: *r.pick(&[13u32, 51, 128]) },
        5..=7 => {
            let d = r.range(1, 3);
            SchedSel::Pct { change_points: (0..d).map(|_| r.range(1, 120)).collect() }
        }
        _ => SchedSel::Hold { tid: r.below(n_threads as u64) as usize, nth: r.range(1, 40) },
    }
}

fn uniq_tuple(tid: usize, k: usize) -> T {
    int_tuple((tid * 10 + k) as i32 + 1, tid as i32)
}

/// C15 level 1: FilePersist alone, appends/flushes/compactions from 2-3 threads on 1-2 shards.
pub fn c15_persist(seed: u64) -> ConcCase {
    let mut rc = Rng::new(seed, P_CFG);
    let mut rw = Rng::new(seed, P_WORK);
    let nthreads = rw.range(2, 3) as usize;
    // every third case is about the WAL-size limit: nothing is flushed by the buffer, a few appends
    // push the log over a small limit, which flushes *all* dirty shards while other threads append
    let wal_limit_mode = seed % 3 == 0;
    let shards = if wal_limit_mode {
        vec!["k:r".to_string(), "k:s".to_string(), "k:t".to_string()]
    } else if rw.chance(1, 2) {
        vec!["k:r".to_string()]
    } else {
        vec!["k:r".to_string(), "k:s".to_string()]
    };
    let mut time = 1u64;
    let mut threads = Vec::new();
    for tid in 0..nthreads {
        let n = if wal_limit_mode { rw.range(2, 4) as usize } else { rw.range(1, 3) as usize };
        let mut ops = Vec::new();
        let mut mine: Vec<(String, T)> = Vec::new();
        for k in 0..n {
            let shard = rw.pick(&shards).clone();
            let x = if wal_limit_mode && rw.chance(2, 3) { 0 } else { rw.below(10) };
            match x {
                0..=4 => {
                    let cnt = rw.range(1, 2) as usize;
                    let mut ups = Vec::new();
                    for j in 0..cnt {
                        let t = uniq_tuple(tid, k * 2 + j);
                        mine.push((shard.clone(), t.clone()));
                        ups.push((t, time, 1i64));
                    }
                    time += 1;
                    ops.push(COp::PAppend { shard, updates: ups });
                }
                5 => {
                    if let Some((sh, t)) = mine.last().cloned() {
                        ops.push(COp::PAppend { shard: sh, updates: vec![(t, time, -1)] });
                        time += 1;
                    } else {
                        ops.push(COp::PFlush { shard });
                    }
                }
                6..=7 => ops.push(COp::PFlush { shard }),
                _ => ops.push(COp::PCompact { shard }),
            }
        }
        threads.push(ops);
    }
    let mut cfg = swarm_cfg(&mut rc, true);
    cfg.buffer_size = *rc.pick(&[1usize, 2, 3, 10000]);
    if wal_limit_mode {
        cfg.buffer_size = *rc.pick(&[10000usize, 10000, 4]);
        cfg.max_wal = *rc.pick(&[150u64, 300, 300, 500, 700]);
    }
    cfg.num_threads = 1;
    let mut rs = Rng::new(seed, 9);
    ConcCase { seed, cfg, level: "persist".into(), setup: vec![], threads, sched: Some(gen_sched(&mut rs, nthreads)), sched_seed: rs.next(), ..Default::default() }
}

/// Engine-level concurrent histories: writers on overlapping tuples, maintenance, readers.
/// `flavour`: 0 = C15 (writes + maintenance), 1 = C20 (batches + readers + rules), 2 = C17b (insert || drop || re-create), 3 = C19b (incremental readers)
/// C17 schedule template: a writer that holds graph x's lock, a rule registration for x queued behind it,
/// and a third thread that drops and re-creates x meanwhile - under the hold-one-thread-at-a-site strategy.
fn c17_registration_race(seed: u64) -> ConcCase {
    let mut rc = Rng::new(seed, P_CFG);
    let mut rw = Rng::new(seed, P_WORK);
    let kg = "x".to_string();
    let setup = vec![COp::CreateKg { kg: kg.clone() }, COp::Insert { kg: kg.clone(), rel: "r".into(), tuples: vec![int_tuple(1, 2)] }];
    let writer = vec![COp::Insert { kg: kg.clone(), rel: "r".into(), tuples: vec![int_tuple(100 + rw.range(1, 5) as i32, 0), int_tuple(200, 0)] }];
    let registrar = vec![COp::RegisterRule { kg: kg.clone(), text: "d(X, Y) <- r(X, Y)".into() }];
    let mut dropper = vec![COp::DropKg { kg: kg.clone() }, COp::CreateKg { kg: kg.clone() }];
    if rw.chance(1, 2) {
        dropper.push(COp::Read { kg: kg.clone(), rel: "r".into() });
    }
    let mut cfg = swarm_cfg(&mut rc, true);
    cfg.num_threads = 1;
    let mut rs = Rng::new(seed, 9);
    let sched = if rw.chance(3, 4) { SchedSel::Hold { tid: 0, nth: rw.range(1, 30) } } else { gen_sched(&mut rs, 3) };
    ConcCase { seed, cfg, level: "engine".into(), setup, threads: vec![writer, registrar, dropper], sched: Some(sched), sched_seed: rs.next(), ..Default::default() }
}

pub fn conc_engine(seed: u64, flavour: u64) -> ConcCase {
    if flavour == 2 && seed % 5 == 4 {
        return c17_registration_race(seed);
    }
    let mut rc = Rng::new(seed, P_CFG);
    let mut rw = Rng::new(seed, P_WORK);
    let kg = if flavour == 2 { "x".to_string() } else { "default".to_string() };
    let rel = "r".to_string();
    let shared_tuples: Vec<T> = (0..3).map(|i| int_tuple(i + 1, (i * 7 + 2) % 5)).collect();
    let mut setup = Vec::new();
    if flavour == 2 {
        setup.push(COp::CreateKg { kg: kg.clone() });
        setup.push(COp::CreateKg { kg: "xy".into() });
        setup.push(COp::Insert { kg: "xy".into(), rel: rel.clone(), tuples: vec![int_tuple(7, 7)] });
    }
    if rw.chance(1, 2) {
        setup.push(COp::Insert { kg: kg.clone(), rel: rel.clone(), tuples: vec![shared_tuples[0].clone()] });
    }
    if flavour == 1 && rw.chance(1, 2) {
        setup.push(COp::RegisterRule { kg: kg.clone(), text: "d(X, Y) <- r(X, Y)".into() });
    }
    let nthreads = rw.range(2, 3) as usize;
    // every fifth reader/writer case is about very large batches (chunked application, bulk paths)
    let big_mode = flavour == 1 && rw.chance(1, 5);
    let mut threads = Vec::new();
    let mut fresh = 100;
    for tid in 0..nthreads {
        let n = rw.range(1, 3) as usize;
        let mut ops = Vec::new();
        let role = match flavour {
            1 => {
                if tid == 0 {
                    0
                } else {
                    rw.below(2)
                }
            } // writer / reader
            3 => {
                if tid == 0 {
                    1
                } else {
                    0
                }
            }
            _ => 0,
        };
        for _ in 0..n {
            if role == 1 {
                if flavour == 3 {
                    ops.push(COp::ReadConsistent { kg: kg.clone(), rel: rel.clone() });
                } else if rw.chance(1, 4) {
                    ops.push(COp::Query { kg: kg.clone(), rel: if rw.chance(1, 2) { "d".into() } else { rel.clone() }, arity: 2 });
                } else {
                    ops.push(COp::Read { kg: kg.clone(), rel: rel.clone() });
                }
                continue;
            }
            let x = rw.below(20);
            match (flavour, x) {
                (_, 0..=6) => {
                    // insert: overlapping tuples or a fresh multi-tuple batch
                    let tuples = if flavour == 1 || rw.chance(1, 2) {
                        // 2-3 fresh tuples; now and then a batch beyond the size thresholds of bulk paths
                        let k = if flavour == 1 && big_mode && rw.chance(1, 2) {
                            *rw.pick(&[1025u64, 1100, 2050, 3100])
                        } else if flavour == 1 && rw.chance(1, 12) {
                            *rw.pick(&[33u64, 130, 1025])
                        } else {
                            rw.range(2, 3)
                        };
                        (0..k)
                            .map(|_| {
                                fresh += 1;
                                int_tuple(fresh, tid as i32)
                            })
                            .collect()
                    } else {
                        vec![rw.pick(&shared_tuples).clone()]
                    };
                    ops.push(COp::Insert { kg: kg.clone(), rel: rel.clone(), tuples });
                }
                (_, 7..=10) => {
                    let mut tuples = vec![rw.pick(&shared_tuples).clone()];
                    if rw.chance(1, 2) {
                        tuples.push(rw.pick(&shared_tuples).clone());
                    }
                    ops.push(COp::Delete { kg: kg.clone(), rel: rel.clone(), tuples })
                }
                (0, 11..=13) => ops.push(COp::SaveAll),
                (0, 14..=15) => ops.push(COp::CompactAll),
                (0, _) => ops.push(COp::Read { kg: kg.clone(), rel: rel.clone() }),
                (1, 11..=12) => ops.push(COp::RegisterRule { kg: kg.clone(), text: "d(X, Y) <- r(X, Y)".into() }),
                (1, 13) => ops.push(COp::DropRule { kg: kg.clone(), name: "d".into() }),
                (1, _) => ops.push(COp::Read { kg: kg.clone(), rel: rel.clone() }),
                (2, 11..=14) => ops.push(COp::DropKg { kg: kg.clone() }),
                (2, 15..=17) => ops.push(COp::CreateKg { kg: kg.clone() }),
                // a rule registration racing with the drop / re-creation: it belongs to the graph it was addressed to
                (2, 18) => ops.push(COp::RegisterRule { kg: kg.clone(), text: "d(X, Y) <- r(X, Y)".into() }),
                (2, _) => ops.push(COp::Read { kg: kg.clone(), rel: rel.clone() }),
                (_, 11..=13) => ops.push(COp::Read { kg: kg.clone(), rel: rel.clone() }),
                (_, _) => ops.push(COp::SaveAll),
            }
        }
        if flavour == 1 && role == 0 && rw.chance(2, 3) {
            // read-your-writes
            ops.push(COp::Read { kg: kg.clone(), rel: rel.clone() });
        }
        threads.push(ops);
    }
    if flavour == 2 && !threads.iter().flatten().any(|o| matches!(o, COp::DropKg { .. })) {
        threads[0].insert(0, COp::DropKg { kg: kg.clone() });
    }
    let mut cfg = swarm_cfg(&mut rc, true);
    cfg.num_threads = 1;
    let mut rs = Rng::new(seed, 9);
    ConcCase {
        seed,
        cfg,
        level: "engine".into(),
        setup,
        threads,
        sched: Some(gen_sched(&mut rs, nthreads)),
        sched_seed: rs.next(),
        incremental: if flavour == 3 { vec![kg] } else { vec![] },
        ..Default::default()
    }
}

/// C20 at the Handler level: every thread sends whole requests through the real Handler
/// (QueryJob::execute); a statement - bulk insert, bulk delete, conditional delete, update, rule
/// registration - is one operation and must be observed entirely or not at all.
/// mode 0 ("visibility"): a conditional statement only races with readers and with inserts of
/// tuples its condition cannot match; explicit-tuple statements race freely.
/// mode 1 ("conflicting conditional writers"): conditional statements race with other writers of
/// the tuples they match (their condition is evaluated on a snapshot and applied later).
pub fn conc_handler(seed: u64, mode: u64) -> ConcCase {
    let mut rc = Rng::new(seed, P_CFG);
    let mut rw = Rng::new(seed, P_WORK);
    let kg = "default".to_string();
    let rel = "r".to_string();
    let h64 = |a: i64, b: i64| -> T { vec![V::I64(a), V::I64(b)] };
    let base: Vec<T> = (1..=4).map(|i| h64(i, i % 3)).collect();
    // further tuples sharing X with the base ones, so that `Y := c` updates can collide with stored tuples
    let mut stored = base.clone();
    for i in 1..=3 {
        if rw.chance(1, 2) {
            stored.push(h64(i, (i + 1) % 3));
        }
        if rw.chance(1, 2) {
            stored.push(h64(i, 0));
        }
    }
    let mut setup = vec![COp::Insert { kg: kg.clone(), rel: rel.clone(), tuples: stored }];
    if rw.chance(1, 3) {
        setup.push(COp::RegisterRule { kg: kg.clone(), text: "d(X, Y) <- r(X, Y)".into() });
    }
    let nthreads = rw.range(2, 3) as usize;
    // mode 0: at most one thread issues conditional statements and then nobody deletes stored tuples
    let cond_thread: Option<usize> = if mode == 1 { None } else if rw.chance(1, 2) { Some(rw.below(nthreads as u64) as usize) } else { Some(usize::MAX) };
    let mut threads = Vec::new();
    let mut fresh = 100i64;
    for tid in 0..nthreads {
        let reader = tid > 0 && rw.chance(1, 2) && cond_thread != Some(tid);
        let n = rw.range(1, 3) as usize;
        let mut ops = Vec::new();
        for _ in 0..n {
            if reader {
                ops.push(COp::Query { kg: kg.clone(), rel: if rw.chance(1, 4) { "d".into() } else { rel.clone() }, arity: 2 });
                continue;
            }
            let conditional_here = mode == 1 || cond_thread == Some(tid);
            let conditional_somewhere = mode == 0 && cond_thread.is_some_and(|t| t != usize::MAX);
            let cmps: &[&str] = if mode == 1 { &["<", ">", ">="] } else { &["<", "<=", "="] };
            match rw.below(12) {
                0..=2 => {
                    let k = rw.range(2, 3);
                    let tuples: Vec<T> = (0..k)
                        .map(|_| {
                            fresh += 1;
                            h64(fresh, 0)
                        })
                        .collect();
                    ops.push(COp::Insert { kg: kg.clone(), rel: rel.clone(), tuples });
                }
                3..=5 if !conditional_somewhere => {
                    // bulk delete statement: two or three stored tuples at once
                    let k = rw.range(2, 3) as usize;
                    let start = rw.below(3) as usize;
                    let tuples: Vec<T> = (0..k).map(|j| base[(start + j) % base.len()].clone()).collect();
                    ops.push(COp::Delete { kg: kg.clone(), rel: rel.clone(), tuples });
                }
                6..=7 if conditional_here => ops.push(COp::CondDelete { kg: kg.clone(), rel: rel.clone(), col: 0, cmp: rw.pick(cmps).to_string(), k: rw.range(2, 3) as i64 }),
                8..=9 if conditional_here => {
                    // Y := Y + 10, or Y := a constant that other stored tuples already carry (the insert half may be all duplicates)
                    if rw.chance(1, 2) {
                        // condition on Y, Y := 0: the inserted tuples (X, 0) are not matched themselves and may all be stored already
                        ops.push(COp::Update { kg: kg.clone(), rel: rel.clone(), col: 1, cmp: rw.pick(&[">", ">="]).to_string(), k: rw.range(1, 2) as i64, add: 0, set_to: Some(0) });
                    } else {
                        ops.push(COp::Update { kg: kg.clone(), rel: rel.clone(), col: 0, cmp: rw.pick(cmps).to_string(), k: rw.range(2, 3) as i64, add: 10, set_to: None });
                    }
                    if rw.chance(1, 2) {
                        // read-your-writes right after the statement
                        ops.push(COp::Query { kg: kg.clone(), rel: rel.clone(), arity: 2 });
                    }
                }
                10 => ops.push(COp::RegisterRule { kg: kg.clone(), text: "d(X, Y) <- r(X, Y)".into() }),
                _ => ops.push(COp::Query { kg: kg.clone(), rel: rel.clone(), arity: 2 }),
            }
        }
        threads.push(ops);
    }
    let mut cfg = swarm_cfg(&mut rc, true);
    cfg.num_threads = 1;
    let mut rs = Rng::new(seed, 9);
    ConcCase { seed, cfg, level: "handler".into(), setup, threads, sched: Some(gen_sched(&mut rs, nthreads)), sched_seed: rs.next(), ..Default::default() }
}

// ------------------------------------------------------------------------------------------ HSC

use crate::hsc::{tuple_lit, Effect, HCase, HOp, SEffect};

fn t64(a: i64, b: i64) -> T {
    vec![V::I64(a), V::I64(b)]
}

fn gen_cmp(r: &mut Rng) -> (usize, String, i64) {
    (r.below(2) as usize, r.pick(&[">", "<", ">=", "="]).to_string(), r.range(0, 4) as i64)
}

fn bulk_text(rel: &str, tuples: &[T]) -> String {
    if tuples.len() == 1 {
        format!("+{rel}{}", tuple_lit(&tuples[0]))
    } else {
        format!("+{rel}[{}]", tuples.iter().map(tuple_lit).collect::<Vec<_>>().join(", "))
    }
}

/// C32: bulk/conditional write programs through the Handler with accurate-report checks.
pub fn c32_case(seed: u64) -> HCase {
    let mut rc = Rng::new(seed, P_CFG);
    let mut rw = Rng::new(seed, P_WORK);
    let n = rw.range(3, 10) as usize;
    let kg = "default".to_string();
    let mut ops = Vec::new();
    for _ in 0..n {
        let rel = rw.pick(&["r", "r", "s"]).to_string();
        match rw.below(27) {
            0..=7 => {
                let k = rw.range(1, 4) as usize;
                let tuples: Vec<T> = (0..k).map(|_| t64(rw.range(0, 4) as i64, rw.range(0, 3) as i64)).collect();
                ops.push(HOp::Program { kg: kg.clone(), text: bulk_text(&rel, &tuples), effect: Effect::Insert { rel, tuples } });
            }
            8..=10 => {
                let t = t64(rw.range(0, 4) as i64, rw.range(0, 3) as i64);
                ops.push(HOp::Program { kg: kg.clone(), text: format!("-{rel}{}", tuple_lit(&t)), effect: Effect::Delete { rel, tuples: vec![t] } });
            }
            11..=13 => match rw.below(5) {
                0 => {
                    // repeated variable in the head
                    ops.push(HOp::Program { kg: kg.clone(), text: format!("-{rel}(X, X) <- {rel}(X, X)"), effect: Effect::CondDeleteDiag { rel } });
                }
                1 => {
                    // constant in the head
                    let k = rw.range(0, 4) as i64;
                    if rw.chance(1, 2) {
                        ops.push(HOp::Program { kg: kg.clone(), text: format!("-{rel}({k}, Y) <- {rel}({k}, Y)"), effect: Effect::CondDelete { rel, col: 0, cmp: "=".into(), k } });
                    } else {
                        ops.push(HOp::Program { kg: kg.clone(), text: format!("-{rel}(X, {k}) <- {rel}(X, {k})"), effect: Effect::CondDelete { rel, col: 1, cmp: "=".into(), k } });
                    }
                }
                _ => {
                    let (col, cmp, k) = gen_cmp(&mut rw);
                    let var = if col == 0 { "X" } else { "Y" };
                    ops.push(HOp::Program {
                        kg: kg.clone(),
                        text: format!("-{rel}(X, Y) <- {rel}(X, Y), {var} {cmp} {k}"),
                        effect: Effect::CondDelete { rel, col, cmp, k },
                    });
                }
            },
            14..=15 => {
                let (col, cmp, k) = gen_cmp(&mut rw);
                let var = if col == 0 { "X" } else { "Y" };
                let add = rw.range(1, 2) as i64;
                if rw.chance(1, 3) {
                    // Y := constant: the inserted tuples may all be stored already; then read the relation back
                    let c = rw.range(0, 2) as i64;
                    let (col, cmp, k, var) = if rw.chance(1, 2) { (1usize, ">".to_string(), c, "Y") } else { (col, cmp, k, var) };
                    ops.push(HOp::Program {
                        kg: kg.clone(),
                        text: format!("-{rel}(X, Y), +{rel}(X, {c}) <- {rel}(X, Y), {var} {cmp} {k}"),
                        effect: Effect::Update { rel: rel.clone(), col, cmp, k, add, set_to: Some(c) },
                    });
                    ops.push(HOp::Query { kg: kg.clone(), text: format!("?{rel}(X, Y)") });
                } else {
                    ops.push(HOp::Program {
                        kg: kg.clone(),
                        text: format!("-{rel}(X, Y), +{rel}(X, Z) <- {rel}(X, Y), {var} {cmp} {k}, Z = Y + {add}"),
                        effect: Effect::Update { rel, col, cmp, k, add, set_to: None },
                    });
                }
            }
            16 => ops.push(HOp::SaveAll),
            17 => ops.push(HOp::CompactAll),
            18 => ops.push(HOp::Query { kg: kg.clone(), text: format!("?{rel}(X, Y)") }),
            19 => ops.push(HOp::Restart),
            20 => {
                // a large batch (size thresholds of bulk paths) with in-batch repeats of stored and of new tuples
                let k = *rw.pick(&[31usize, 32, 33, 40, 64, 65, 130, 300]);
                let dom = rw.range(6, 40) as i64;
                let tuples: Vec<T> = (0..k).map(|_| t64(rw.range(0, dom as u64) as i64, rw.range(0, 3) as i64)).collect();
                if rw.chance(1, 2) {
                    ops.push(HOp::EngineInsert { kg: kg.clone(), rel, tuples });
                } else {
                    ops.push(HOp::Program { kg: kg.clone(), text: bulk_text(&rel, &tuples), effect: Effect::Insert { rel, tuples } });
                }
            }
            21 => {
                // engine-level batch with in-batch duplicates
                let k = rw.range(2, 5) as usize;
                let tuples: Vec<T> = (0..k).map(|_| t64(rw.range(0, 2) as i64, rw.range(0, 2) as i64)).collect();
                ops.push(HOp::EngineInsert { kg: kg.clone(), rel, tuples });
            }
            22 => {
                // one delete request naming tuples several times / absent tuples
                let k = rw.range(2, 5) as usize;
                let tuples: Vec<T> = (0..k).map(|_| t64(rw.range(0, 2) as i64, rw.range(0, 2) as i64)).collect();
                ops.push(HOp::EngineDelete { kg: kg.clone(), rel, tuples });
            }
            24 => {
                // relations of arity 1 and 3, small domains so that repeats and stored duplicates occur
                let (rel, ar) = *rw.pick(&[("u", 1usize), ("w", 3usize)]);
                let k = rw.range(1, 4) as usize;
                let tuples: Vec<T> = (0..k).map(|_| (0..ar).map(|_| V::I64(rw.range(0, 2) as i64)).collect()).collect();
                if rw.chance(1, 2) {
                    ops.push(HOp::EngineInsert { kg: kg.clone(), rel: rel.into(), tuples });
                } else {
                    ops.push(HOp::Program { kg: kg.clone(), text: bulk_text(rel, &tuples), effect: Effect::Insert { rel: rel.into(), tuples } });
                }
            }
            25 => {
                let (rel, ar) = *rw.pick(&[("u", 1usize), ("w", 3usize)]);
                let k = rw.range(1, 3) as usize;
                let tuples: Vec<T> = (0..k).map(|_| (0..ar).map(|_| V::I64(rw.range(0, 2) as i64)).collect()).collect();
                if rw.chance(1, 2) {
                    ops.push(HOp::EngineDelete { kg: kg.clone(), rel: rel.into(), tuples });
                } else {
                    let text = if k == 1 { format!("-{rel}{}", tuple_lit(&tuples[0])) } else { format!("-{rel}[{}]", tuples.iter().map(tuple_lit).collect::<Vec<_>>().join(", ")) };
                    ops.push(HOp::Program { kg: kg.clone(), text, effect: Effect::Delete { rel: rel.into(), tuples } });
                }
            }
            26 => {
                // the same tuple in another integer width is a different tuple (engine API only: statements parse integers as Int64)
                let wide = rw.chance(1, 3);
                let tuples: Vec<T> = (0..rw.range(1, 3))
                    .map(|_| {
                        let (a, b) = (rw.range(0, 2) as i32, rw.range(0, 2) as i32);
                        if wide { vec![V::I64(a as i64), V::I64(b as i64)] } else { vec![V::I32(a), V::I32(b)] }
                    })
                    .collect();
                // (own relations: how a statement's Int64 constants match Int32 columns is not this property's business)
                let rel = rw.pick(&["n", "n", "r32"]).to_string();
                if rw.chance(2, 3) {
                    ops.push(HOp::EngineInsert { kg: kg.clone(), rel, tuples });
                } else {
                    ops.push(HOp::EngineDelete { kg: kg.clone(), rel, tuples });
                }
            }
            _ => {
                // bulk delete statement, tuples may repeat
                let k = rw.range(2, 4) as usize;
                let tuples: Vec<T> = (0..k).map(|_| t64(rw.range(0, 3) as i64, rw.range(0, 2) as i64)).collect();
                let text = format!("-{rel}[{}]", tuples.iter().map(tuple_lit).collect::<Vec<_>>().join(", "));
                ops.push(HOp::Program { kg: kg.clone(), text, effect: Effect::Delete { rel, tuples } });
            }
        }
    }
    ops.push(HOp::Restart);
    HCase { seed, cfg: swarm_cfg(&mut rc, true), idle_timeout_secs: 3600, ops, check_reports: true, use_async: rw.chance(1, 4) }
}

fn gen_typed_value(r: &mut Rng, ty: &str, conform: bool) -> V {
    let vecn = |r: &mut Rng, n: usize| V::Vec((0..n).map(|_| ((r.range(0, 8) as f32) * 0.5 + 0.25).to_bits()).collect());
    let good = match ty {
        "int" => V::I64(r.range(0, 5) as i64),
        "string" => V::Str(r.pick(&["a", "b", "c"]).to_string()),
        "float" => V::F64((r.range(0, 5) as f64 + 0.5).to_bits()),
        "vector(3)" => vecn(r, 3),
        "vector" => {
            let n = r.range(1, 4) as usize;
            vecn(r, n)
        }
        _ => V::Bool(r.chance(1, 2)),
    };
    if conform {
        return good;
    }
    match ty {
        "int" => V::Str("x".into()),
        "string" => V::I64(7),
        "float" => V::Str("f".into()),
        // a vector of the wrong dimension (the same representation as a good one), or not a vector
        "vector(3)" => {
            if r.chance(2, 3) {
                let n = *r.pick(&[2usize, 4]);
                vecn(r, n)
            } else {
                V::Str("v".into())
            }
        }
        "vector" => V::Str("v".into()),
        _ => V::Str("t".into()),
    }
}

/// C33: persistent / request-local schema declarations and conforming / non-conforming batches.
pub fn c33_case(seed: u64) -> HCase {
    let mut rc = Rng::new(seed, P_CFG);
    let mut rw = Rng::new(seed, P_WORK);
    let kg = "default".to_string();
    let tys = ["int", "string", "float", "bool"];
    // vector types only in the second column (a declaration whose first column is a vector type is not parsed as a schema by the unchanged tree)
    let tys_b = ["int", "string", "float", "bool", "vector(3)", "vector(3)", "vector"];
    let mut ops = Vec::new();
    let mut declared: Vec<(String, Vec<(String, String)>)> = Vec::new();
    let n = rw.range(3, 9) as usize;
    let mut slot_made = false;
    for _ in 0..n {
        let rel = rw.pick(&["t", "u"]).to_string();
        match rw.below(23) {
            0..=4 => {
                let cols = vec![("a".to_string(), rw.pick(&tys).to_string()), ("b".to_string(), rw.pick(&tys_b).to_string())];
                let text = format!("+{rel}({})", cols.iter().map(|(c, t)| format!("{c}: {t}")).collect::<Vec<_>>().join(", "));
                declared.retain(|(r, _)| r != &rel);
                declared.push((rel.clone(), cols.clone()));
                ops.push(HOp::Program { kg: kg.clone(), text, effect: Effect::Schema { rel, cols } });
            }
            5..=12 => {
                // a batch against the declared schema (or against nothing)
                let cols = declared.iter().find(|(r, _)| r == &rel).map(|(_, c)| c.clone()).unwrap_or_else(|| vec![("a".into(), "int".into()), ("b".into(), "int".into())]);
                let k = rw.range(1, 4) as usize;
                let mode = rw.below(3); // 0 all conform, 1 one bad (the last one), 2 all bad
                let tuples: Vec<T> = (0..k)
                    .map(|j| {
                        let bad = mode == 2 || (mode == 1 && j == k - 1);
                        let bad_col = rw.below(2) as usize;
                        cols.iter().enumerate().map(|(ci, (_, ty))| gen_typed_value(&mut rw, ty, !(bad && ci == bad_col))).collect()
                    })
                    .collect();
                if rw.chance(1, 4) {
                    // the session insert path
                    if !slot_made {
                        ops.push(HOp::SessCreate { slot: 0, kg: kg.clone() });
                        slot_made = true;
                    }
                    ops.push(HOp::SessInsert { slot: 0, rel, tuples });
                } else {
                    ops.push(HOp::Program { kg: kg.clone(), text: bulk_text(&rel, &tuples), effect: Effect::Insert { rel, tuples } });
                }
            }
            13..=15 => {
                // another client declares a request-local schema for the same relation
                let cols = vec![("a".to_string(), rw.pick(&tys).to_string()), ("b".to_string(), rw.pick(&tys_b).to_string())];
                let text = format!("{rel}({})", cols.iter().map(|(c, t)| format!("{c}: {t}")).collect::<Vec<_>>().join(", "));
                ops.push(HOp::Program { kg: kg.clone(), text, effect: Effect::SessionSchema { rel, cols } });
            }
            16..=17 => ops.push(HOp::Restart),
            18 => ops.push(HOp::SaveAll),
            19 => ops.push(HOp::Query { kg: kg.clone(), text: format!("?{rel}(X, Y)") }),
            _ => {
                // one request of several statements: request-local and/or persistent schema declarations,
                // request-local facts, then one persistent insert judged against the *persistent* schema
                let mut stmts: Vec<(String, Effect)> = Vec::new();
                let mut eff_cols = declared.iter().find(|(r, _)| r == &rel).map(|(_, c)| c.clone());
                let mut sess_cols: Option<Vec<(String, String)>> = None;
                for _ in 0..rw.range(1, 2) {
                    let cols = vec![("a".to_string(), rw.pick(&tys).to_string()), ("b".to_string(), rw.pick(&tys_b).to_string())];
                    let decl = cols.iter().map(|(c, t)| format!("{c}: {t}")).collect::<Vec<_>>().join(", ");
                    if rw.chance(2, 3) {
                        stmts.push((format!("{rel}({decl})"), Effect::SessionSchema { rel: rel.clone(), cols: cols.clone() }));
                        sess_cols = Some(cols);
                    } else {
                        stmts.push((format!("+{rel}({decl})"), Effect::Schema { rel: rel.clone(), cols: cols.clone() }));
                        declared.retain(|(r, _)| r != &rel);
                        declared.push((rel.clone(), cols.clone()));
                        eff_cols = Some(cols);
                    }
                }
                // the batch: conforming to the request-local schema, to the persistent one, or to neither
                let target = match rw.below(3) {
                    0 => sess_cols.clone().or(eff_cols.clone()),
                    1 => eff_cols.clone(),
                    _ => None,
                }
                .unwrap_or_else(|| vec![("a".into(), "int".into()), ("b".into(), "int".into())]);
                let k = rw.range(1, 2) as usize;
                let tuples: Vec<T> = (0..k).map(|_| target.iter().map(|(_, ty)| gen_typed_value(&mut rw, ty, true)).collect()).collect();
                stmts.push((bulk_text(&rel, &tuples), Effect::Insert { rel: rel.clone(), tuples }));
                ops.push(HOp::Multi { kg: kg.clone(), stmts });
            }
        }
    }
    ops.push(HOp::Restart);
    HCase { seed, cfg: swarm_cfg(&mut rc, true), idle_timeout_secs: 3600, ops, check_reports: false, use_async: false }
}

const SESSION_RULES: &[&str] = &["sv(X, Y) <- f(X, Y)", "sv(X, Y) <- f(X, Z), f(Z, Y)", "sv(X, Y) <- f(X, Y), X < Y", "sv(X, Y) <- g(X, Y)", "sv(X, Y) <- f(X, Y), !g(X, Y)"];
const QUERIES: &[&str] = &["?f(X, Y)", "?g(X, Y)", "?sv(X, Y)", "?f(X, Y), X > 1", "?pv(X, Y)", "?f(X, Y), g(Y, Z)"];

/// C10a: sessions, stateless clients with request-local facts, a persistent writer and the reaper
/// on the simulated clock, interleaved at request granularity.
pub fn c10_case(seed: u64) -> HCase {
    let mut rc = Rng::new(seed, P_CFG);
    let mut rw = Rng::new(seed, P_WORK);
    let kg = "default".to_string();
    let idle = *rw.pick(&[30u64, 120, 3600]);
    let n_sess = rw.range(2, 3) as usize;
    let mut ops = Vec::new();
    // some persistent base data and a persistent rule
    ops.push(HOp::Program { kg: kg.clone(), text: bulk_text("f", &[t64(1, 2), t64(2, 3)]), effect: Effect::Insert { rel: "f".into(), tuples: vec![t64(1, 2), t64(2, 3)] } });
    if rw.chance(1, 2) {
        ops.push(HOp::Program { kg: kg.clone(), text: "+pv(X, Y) <- f(X, Y)".into(), effect: Effect::Rule { name: "pv".into(), text: "pv(X, Y) <- f(X, Y)".into() } });
    }
    // a second knowledge graph with the same relation names and its own value range
    let two_kgs = rw.chance(1, 2);
    if two_kgs {
        ops.push(HOp::Program { kg: kg.clone(), text: ".kg create k2".into(), effect: Effect::CreateKg { name: "k2".into() } });
        ops.push(HOp::Program { kg: "k2".into(), text: bulk_text("f", &[t64(5001, 5002), t64(5002, 5003)]), effect: Effect::Insert { rel: "f".into(), tuples: vec![t64(5001, 5002), t64(5002, 5003)] } });
    }
    let pick_kg = |r: &mut Rng| if two_kgs && r.chance(1, 3) { "k2".to_string() } else { "default".to_string() };
    for s in 0..n_sess {
        let k = pick_kg(&mut rw);
        ops.push(HOp::SessCreate { slot: s, kg: k });
    }
    let n = rw.range(6, 16) as usize;
    for _ in 0..n {
        let slot = rw.below(n_sess as u64) as usize;
        let base = 1000 * (slot as i64 + 1);
        let own = |r: &mut Rng| t64(base + r.range(0, 3) as i64, base + r.range(0, 3) as i64);
        match rw.below(34) {
            0..=4 => {
                let k = rw.range(1, 2);
                // mostly the session's own value range; sometimes a tuple that is (or may later be, or
                // stop being) stored persistently as well - the session must keep seeing its own copy
                let tuples: Vec<T> = (0..k).map(|_| if rw.chance(1, 4) { t64(rw.range(1, 3) as i64, rw.range(2, 4) as i64) } else { own(&mut rw) }).collect();
                ops.push(HOp::SessInsert { slot, rel: rw.pick(&["f", "g"]).to_string(), tuples });
            }
            5 => {
                let t = if rw.chance(1, 3) { t64(rw.range(1, 3) as i64, rw.range(2, 4) as i64) } else { own(&mut rw) };
                ops.push(HOp::SessRetract { slot, rel: "f".into(), tuples: vec![t] });
            }
            6..=7 => ops.push(HOp::SessAddRule { slot, text: rw.pick(SESSION_RULES).to_string() }),
            8..=13 => ops.push(HOp::SessQuery { slot, text: rw.pick(QUERIES).to_string() }),
            14 => ops.push(HOp::SessExec { slot, text: ".session clear".into(), effect: Effect::None, clears_session: true, seffect: Default::default() }),
            15 => {
                // persistent write over a session connection
                let t = t64(rw.range(1, 5) as i64, rw.range(1, 5) as i64);
                ops.push(HOp::SessExec { slot, text: format!("+f{}", tuple_lit(&t)), effect: Effect::Insert { rel: "f".into(), tuples: vec![t] }, clears_session: false, seffect: Default::default() });
            }
            16..=17 => {
                // stateless client with request-local facts and rules
                let lt = t64(9000 + rw.range(0, 3) as i64, 9000 + rw.range(0, 3) as i64);
                let rules = if rw.chance(1, 2) { vec![rw.pick(SESSION_RULES).to_string()] } else { vec![] };
                let k = pick_kg(&mut rw);
                ops.push(HOp::RequestLocal { kg: k, facts: vec![(rw.pick(&["f", "g"]).to_string(), lt)], rules, query: rw.pick(QUERIES).to_string(), canon_rules: None });
            }
            18 => {
                let k = pick_kg(&mut rw);
                ops.push(HOp::Query { kg: k, text: rw.pick(QUERIES).to_string() });
            }
            19 => {
                let k = pick_kg(&mut rw);
                let off = if k == "k2" { 5000 } else { 0 };
                let t = if rw.chance(1, 2) { t64(off + rw.range(1, 3) as i64, off + rw.range(2, 4) as i64) } else { t64(off + rw.range(1, 5) as i64, off + rw.range(1, 5) as i64) };
                if rw.chance(1, 2) {
                    ops.push(HOp::Program { kg: k, text: format!("+f{}", tuple_lit(&t)), effect: Effect::Insert { rel: "f".into(), tuples: vec![t] } });
                } else {
                    ops.push(HOp::Program { kg: k, text: format!("-f{}", tuple_lit(&t)), effect: Effect::Delete { rel: "f".into(), tuples: vec![t] } });
                }
            }
            20 => ops.push(HOp::Advance { secs: *rw.pick(&[10u64, 45, 200, 4000]) }),
            21 => ops.push(HOp::Reap),
            22 => ops.push(HOp::SessClose { slot }),
            23 => {
                let k = pick_kg(&mut rw);
                ops.push(HOp::SessCreate { slot, kg: k });
            }
            24..=25 => {
                // a fact statement without '+' sent over the session = ephemeral fact of that session
                let t = if rw.chance(1, 4) { t64(rw.range(1, 3) as i64, rw.range(2, 4) as i64) } else { own(&mut rw) };
                let rel = rw.pick(&["f", "g"]).to_string();
                ops.push(HOp::SessExec { slot, text: format!("{rel}{}", tuple_lit(&t)), effect: Effect::None, clears_session: false, seffect: SEffect::AddFact { rel, tuple: t } });
            }
            26..=27 => {
                let text = rw.pick(SESSION_RULES).to_string();
                ops.push(HOp::SessExec { slot, text: text.clone(), effect: Effect::None, clears_session: false, seffect: SEffect::AddRule { text } });
            }
            28 => {
                let index = rw.range(1, 3) as usize;
                ops.push(HOp::SessExec { slot, text: format!(".session drop {index}"), effect: Effect::None, clears_session: false, seffect: SEffect::DropRuleIndex { index } });
            }
            29 => ops.push(HOp::SessExec { slot, text: ".session drop sv".into(), effect: Effect::None, clears_session: false, seffect: SEffect::DropRuleName { name: "sv".into() } }),
            30..=31 if two_kgs => {
                let k = rw.pick(&["k2", "default"]).to_string();
                ops.push(HOp::SessExec { slot, text: format!(".kg use {k}"), effect: Effect::None, clears_session: false, seffect: SEffect::SwitchKg { kg: k } });
            }
            32 => ops.push(HOp::SessAttach { slot, attach: rw.chance(2, 3) }),
            33 if two_kgs && rw.chance(1, 3) => {
                ops.push(HOp::Program { kg: kg.clone(), text: ".kg drop k2".into(), effect: Effect::DropKg { name: "k2".into() } });
            }
            _ => ops.push(HOp::SessQuery { slot, text: rw.pick(QUERIES).to_string() }),
        }
    }
    let mut cfg = swarm_cfg(&mut rc, true);
    cfg.num_threads = 1;
    HCase { seed, cfg, idle_timeout_secs: idle, ops, check_reports: false, use_async: false }
}

const P_RULES: &[(&str, &str)] = &[
    ("d0", "d0(X, Y) <- f(X, Y)"),
    ("d0", "d0(X, Y) <- g(X, Y)"),
    ("d1", "d1(X, Y) <- d0(X, Y), X < Y"),
    ("d2", "d2(X, Y) <- d1(X, Z), f(Z, Y)"),
    ("d2", "d2(X, Y) <- d0(X, Y), !g(X, Y)"),
    ("tc", "tc(X, Y) <- f(X, Y)"),
    ("tc", "tc(X, Y) <- tc(X, Z), f(Z, Y)"),
    ("cnt", "cnt(X, count<Y>) <- f(X, Y)"),
];
const P_QUERIES: &[&str] = &["?d0(X, Y)", "?d1(X, Y)", "?d2(X, Y)", "?tc(X, Y)", "?tc(1, Y)", "?f(X, Y)", "?d0(X, Y), X > 1", "?cnt(X, N)"];

/// C18 / C19a / C04: persistent rules (over base and over derived relations, recursive), base-fact
/// histories, incremental maintenance switched on at a seeded step, probes after every change.
/// flavour 0 = C18/C19 (incremental), 1 = C04 (registration order, engine history, inline permutations)
pub fn c18_case(seed: u64, flavour: u64) -> HCase {
    let mut rc = Rng::new(seed, P_CFG);
    let mut rw = Rng::new(seed, P_WORK);
    let kg = "default".to_string();
    let n = rw.range(5, 14) as usize;
    let enable_at = if flavour == 0 { rw.below(n as u64 / 2 + 1) as usize } else { usize::MAX };
    let mut ops = Vec::new();
    let fact = |r: &mut Rng| t64(r.range(1, 4) as i64, r.range(1, 4) as i64);
    for i in 0..n {
        if i == enable_at {
            ops.push(HOp::EnableIncremental { kg: kg.clone() });
        }
        match rw.below(24) {
            0..=5 => {
                let rel = rw.pick(&["f", "f", "g"]).to_string();
                let k = rw.range(1, 3);
                let tuples: Vec<T> = (0..k).map(|_| fact(&mut rw)).collect();
                ops.push(HOp::Program { kg: kg.clone(), text: bulk_text(&rel, &tuples), effect: Effect::Insert { rel, tuples } });
            }
            6 => {
                let rel = rw.pick(&["f", "g"]).to_string();
                let t = fact(&mut rw);
                ops.push(HOp::Program { kg: kg.clone(), text: format!("-{rel}{}", tuple_lit(&t)), effect: Effect::Delete { rel, tuples: vec![t] } });
            }
            7 => {
                // one engine-level delete request mixing present and absent tuples
                let rel = rw.pick(&["f", "g"]).to_string();
                let k = rw.range(2, 3);
                let tuples: Vec<T> = (0..k).map(|_| fact(&mut rw)).collect();
                ops.push(HOp::EngineDelete { kg: kg.clone(), rel, tuples });
            }
            8..=13 => {
                let (name, text) = *rw.pick(P_RULES);
                ops.push(HOp::Program { kg: kg.clone(), text: format!("+{text}"), effect: Effect::Rule { name: name.into(), text: text.into() } });
            }
            14 => {
                let name = rw.pick(&["d0", "d1", "d2", "tc"]).to_string();
                ops.push(HOp::Program { kg: kg.clone(), text: format!(".rule drop {name}"), effect: Effect::DropRule { name } });
            }
            15 => {
                let name = rw.pick(&["d0", "d2", "tc"]).to_string();
                let index = rw.range(1, 2) as usize;
                ops.push(HOp::Program { kg: kg.clone(), text: format!(".rule remove {name} {index}"), effect: Effect::RemoveClause { name, index } });
            }
            16 => {
                let name = rw.pick(&["d0", "d1"]).to_string();
                ops.push(HOp::Program { kg: kg.clone(), text: format!(".rule clear {name}"), effect: Effect::ClearRule { name } });
            }
            17 if flavour == 1 => ops.push(HOp::Restart),
            17 => ops.push(HOp::IncrRead { kg: kg.clone(), rel: rw.pick(&["f", "g"]).to_string() }),
            18 if flavour == 1 => {
                // inline program: the same clauses permuted and partly repeated
                let k = rw.range(2, 4) as usize;
                let mut rules: Vec<String> = (0..k).map(|_| rw.pick(P_RULES).1.replace("d0", "q0").replace("d1", "q1").replace("d2", "q2").replace("tc", "qt").replace("cnt", "qc")).collect();
                let mut canon = rules.clone();
                canon.sort();
                canon.dedup();
                if rw.chance(1, 2) {
                    let dup = rules[0].clone();
                    rules.push(dup);
                }
                rules.reverse();
                let q = rw.pick(&["?q0(X, Y)", "?q1(X, Y)", "?qt(X, Y)", "?q2(X, Y)"]).to_string();
                ops.push(HOp::RequestLocal { kg: kg.clone(), facts: vec![], rules, query: q, canon_rules: Some(canon) });
            }
            18 => ops.push(HOp::IncrRead { kg: kg.clone(), rel: "f".into() }),
            19..=21 if flavour == 1 => {
                // the knowledge graph's own long-lived engine: bound-argument (magic-set) queries with changing constants,
                // whole-relation queries, a base relation
                let c = rw.range(1, 4);
                let text = match rw.below(6) {
                    0..=2 => format!("__query__(_c0, Y) <- tc(_c0, Y), _c0 = {c}"),
                    3 => format!("__query__(X, _c1) <- tc(X, _c1), _c1 = {c}"),
                    4 => format!("__query__(X, Y) <- {}(X, Y)", rw.pick(&["d0", "d1", "d2", "tc", "f"])),
                    _ => format!("__query__(_c0, Y) <- d0(_c0, Y), _c0 = {c}"),
                };
                ops.push(HOp::KgEngineQuery { kg: kg.clone(), text });
            }
            _ => ops.push(HOp::Query { kg: kg.clone(), text: rw.pick(P_QUERIES).to_string() }),
        }
        // a catalog change is probed right away - before any later write republishes the snapshot
        let changed_head: Option<String> = match ops.last() {
            Some(HOp::Program { effect: Effect::RemoveClause { name, .. }, .. }) | Some(HOp::Program { effect: Effect::ClearRule { name }, .. }) | Some(HOp::Program { effect: Effect::DropRule { name }, .. }) => Some(name.clone()),
            _ => None,
        };
        if let Some(h) = changed_head {
            if rw.chance(2, 3) {
                ops.push(HOp::Query { kg: kg.clone(), text: format!("?{h}(X, Y)") });
                if h == "d0" && rw.chance(1, 2) {
                    ops.push(HOp::Query { kg: kg.clone(), text: "?d1(X, Y)".into() });
                }
            }
        } else if rw.chance(1, 3) {
            ops.push(HOp::Query { kg: kg.clone(), text: rw.pick(P_QUERIES).to_string() });
        }
    }
    ops.push(HOp::Query { kg: kg.clone(), text: rw.pick(P_QUERIES).to_string() });
    if flavour == 0 {
        ops.push(HOp::IncrRead { kg: kg.clone(), rel: "f".into() });
        ops.push(HOp::IncrRead { kg: kg.clone(), rel: "g".into() });
    }
    let mut cfg = swarm_cfg(&mut rc, true);
    cfg.num_threads = *rc.pick(&[1usize, 1, 2]);
    HCase { seed, cfg, idle_timeout_secs: 3600, ops, check_reports: false, use_async: false }
}

/// C19a: histories dedicated to the incremental mirror: tiny tuple domain, every write path
/// (engine batches with in-batch repeats, delete requests naming a tuple several times or absent
/// tuples, handler statements, conditional deletes, updates, large batches), incremental
/// maintenance switched on before or in the middle of the history, a consistent read of both
/// relations after every write.
pub fn c19a_case(seed: u64) -> HCase {
    let mut rc = Rng::new(seed, P_CFG);
    let mut rw = Rng::new(seed, P_WORK);
    let kg = "default".to_string();
    let n = rw.range(3, 11) as usize;
    let enable_at = rw.below(n as u64 / 2 + 1) as usize;
    let dom = rw.range(2, 3);
    let mut ops = Vec::new();
    let fact = |r: &mut Rng| t64(r.range(1, dom) as i64, r.range(1, 2) as i64);
    for i in 0..n {
        if i == enable_at {
            ops.push(HOp::EnableIncremental { kg: kg.clone() });
        }
        let rel = rw.pick(&["f", "f", "g"]).to_string();
        match rw.below(20) {
            0..=4 => {
                let k = rw.range(1, 4);
                let tuples: Vec<T> = (0..k).map(|_| fact(&mut rw)).collect();
                ops.push(HOp::EngineInsert { kg: kg.clone(), rel, tuples });
            }
            5..=8 => {
                let k = rw.range(1, 4);
                let tuples: Vec<T> = (0..k).map(|_| fact(&mut rw)).collect();
                ops.push(HOp::EngineDelete { kg: kg.clone(), rel, tuples });
            }
            9..=10 => {
                let k = rw.range(1, 3);
                let tuples: Vec<T> = (0..k).map(|_| fact(&mut rw)).collect();
                ops.push(HOp::Program { kg: kg.clone(), text: bulk_text(&rel, &tuples), effect: Effect::Insert { rel, tuples } });
            }
            11..=12 => {
                let k = rw.range(1, 3) as usize;
                let tuples: Vec<T> = (0..k).map(|_| fact(&mut rw)).collect();
                let text = if k == 1 { format!("-{rel}{}", tuple_lit(&tuples[0])) } else { format!("-{rel}[{}]", tuples.iter().map(tuple_lit).collect::<Vec<_>>().join(", ")) };
                ops.push(HOp::Program { kg: kg.clone(), text, effect: Effect::Delete { rel, tuples } });
            }
            13 => {
                let (col, cmp, k) = gen_cmp(&mut rw);
                let var = if col == 0 { "X" } else { "Y" };
                ops.push(HOp::Program { kg: kg.clone(), text: format!("-{rel}(X, Y) <- {rel}(X, Y), {var} {cmp} {k}"), effect: Effect::CondDelete { rel, col, cmp, k } });
            }
            14 => {
                let (col, cmp, k) = gen_cmp(&mut rw);
                let var = if col == 0 { "X" } else { "Y" };
                let add = rw.range(1, 2) as i64;
                if rw.chance(1, 3) {
                    // Y := constant: the inserted tuples may all be stored already; then read the relation back
                    let c = rw.range(0, 2) as i64;
                    let (col, cmp, k, var) = if rw.chance(1, 2) { (1usize, ">".to_string(), c, "Y") } else { (col, cmp, k, var) };
                    ops.push(HOp::Program {
                        kg: kg.clone(),
                        text: format!("-{rel}(X, Y), +{rel}(X, {c}) <- {rel}(X, Y), {var} {cmp} {k}"),
                        effect: Effect::Update { rel: rel.clone(), col, cmp, k, add, set_to: Some(c) },
                    });
                    ops.push(HOp::Query { kg: kg.clone(), text: format!("?{rel}(X, Y)") });
                } else {
                    ops.push(HOp::Program {
                        kg: kg.clone(),
                        text: format!("-{rel}(X, Y), +{rel}(X, Z) <- {rel}(X, Y), {var} {cmp} {k}, Z = Y + {add}"),
                        effect: Effect::Update { rel, col, cmp, k, add, set_to: None },
                    });
                }
            }
            15 => {
                let k = *rw.pick(&[33usize, 64, 70]);
                let tuples: Vec<T> = (0..k).map(|_| t64(rw.range(1, 12) as i64, rw.range(1, 2) as i64)).collect();
                ops.push(HOp::EngineInsert { kg: kg.clone(), rel, tuples });
            }
            16 => ops.push(HOp::SaveAll),
            17 => ops.push(HOp::CompactAll),
            18 => {
                ops.push(HOp::Restart);
                ops.push(HOp::EnableIncremental { kg: kg.clone() });
            }
            _ => ops.push(HOp::EnableIncremental { kg: kg.clone() }),
        }
        ops.push(HOp::IncrRead { kg: kg.clone(), rel: "f".into() });
        ops.push(HOp::IncrRead { kg: kg.clone(), rel: "g".into() });
    }
    let mut cfg = swarm_cfg(&mut rc, true);
    cfg.num_threads = 1;
    HCase { seed, cfg, idle_timeout_secs: 3600, ops, check_reports: true, use_async: false }
}

/// C16 at the Handler level (`c16h`): the request path prints a parsed rule to text, re-parses that text and
/// stores the result - what the catalog then holds (and what a restart reloads) must mean what the client
/// sent. Rules are drawn from the full shape pool and registered with `+<clause>`; the oracle registers the
/// ORIGINAL text through the engine API on a pristine store; answers are compared before and after restarts.
pub fn c16h_case(seed: u64) -> HCase {
    let mut rc = Rng::new(seed, P_CFG);
    let mut rw = Rng::new(seed, P_WORK);
    let kg = "default".to_string();
    let mut ops = Vec::new();
    let facts_r: Vec<T> = (0..rw.range(3, 6)).map(|_| t64(rw.range(0, 5) as i64, rw.range(0, 5) as i64)).collect();
    let facts_s: Vec<T> = (0..rw.range(1, 3)).map(|_| t64(rw.range(0, 5) as i64, rw.range(0, 5) as i64)).collect();
    ops.push(HOp::Program { kg: kg.clone(), text: bulk_text("r", &facts_r), effect: Effect::Insert { rel: "r".into(), tuples: facts_r } });
    ops.push(HOp::Program { kg: kg.clone(), text: bulk_text("s", &facts_s), effect: Effect::Insert { rel: "s".into(), tuples: facts_s } });
    let mut heads: Vec<String> = Vec::new();
    for _ in 0..rw.range(2, 6) {
        match rw.below(10) {
            0..=5 => {
                let h = format!("d{}", rw.below(3));
                let body = rw.pick(RULE_BODIES).replace("{h}", &h);
                if !heads.contains(&h) {
                    heads.push(h.clone());
                }
                ops.push(HOp::Program { kg: kg.clone(), text: format!("+{body}"), effect: Effect::Rule { name: h.clone(), text: body } });
                ops.push(HOp::Query { kg: kg.clone(), text: format!("?{h}(X, Y)") });
            }
            6..=7 => {
                ops.push(HOp::Restart);
                for h in &heads {
                    ops.push(HOp::Query { kg: kg.clone(), text: format!("?{h}(X, Y)") });
                }
            }
            8 => {
                let t = t64(rw.range(0, 5) as i64, rw.range(0, 5) as i64);
                ops.push(HOp::Program { kg: kg.clone(), text: format!("+r{}", tuple_lit(&t)), effect: Effect::Insert { rel: "r".into(), tuples: vec![t] } });
            }
            _ => {
                if let Some(h) = heads.first().cloned() {
                    ops.push(HOp::Query { kg: kg.clone(), text: format!("?{h}(X, Y)") });
                }
            }
        }
    }
    ops.push(HOp::Restart);
    for h in &heads {
        ops.push(HOp::Query { kg: kg.clone(), text: format!("?{h}(X, Y)") });
    }
    let mut cfg = swarm_cfg(&mut rc, true);
    cfg.num_threads = 1;
    HCase { seed, cfg, idle_timeout_secs: 3600, ops, check_reports: false, use_async: false }
}

/// C19 worker-batching family: 1-3 batches of commands queued behind the parked incremental worker.
pub fn c19w_case(seed: u64) -> crate::incsc::ICase {
    use crate::incsc::IOp;
    let mut rw = Rng::new(seed, P_WORK);
    let one = |r: &mut Rng| -> T { vec![V::I32(r.range(1, 4) as i32)] };
    let mut batches = Vec::new();
    for _ in 0..rw.range(1, 3) {
        let mut ops = Vec::new();
        let mut readers = 0;
        for _ in 0..rw.range(2, 6) {
            match rw.below(10) {
                0..=3 => {
                    let k = rw.range(1, 2);
                    ops.push(IOp::Insert { tuples: (0..k).map(|_| one(&mut rw)).collect() });
                }
                4..=5 => ops.push(IOp::Delete { tuples: vec![one(&mut rw)] }),
                6..=7 => ops.push(IOp::Advance),
                _ if readers < 2 => {
                    readers += 1;
                    ops.push(IOp::Reader);
                }
                _ => ops.push(IOp::Advance),
            }
        }
        if readers == 0 || rw.chance(1, 2) {
            ops.push(IOp::Reader);
        }
        batches.push(ops);
    }
    crate::incsc::ICase { seed, batches }
}

// ------------------------------------------------------------------------------------------ VEC

use crate::vecsc::{VCase, VOp};

fn gen_vec(r: &mut Rng, dim: usize, pool: &mut Vec<Vec<f32>>) -> Vec<f32> {
    // sometimes an exact duplicate of an earlier vector, sometimes near-zero norm
    if !pool.is_empty() && r.chance(1, 8) {
        return r.pick(pool).clone();
    }
    let scale = *r.pick(&[1.0f32, 1.0, 10.0, 0.001]);
    let v: Vec<f32> = (0..dim).map(|_| ((r.below(2001) as f32) / 1000.0 - 1.0) * scale).collect();
    pool.push(v.clone());
    v
}

pub fn vec_case(seed: u64) -> VCase {
    let mut rw = Rng::new(seed, P_WORK);
    let dim = rw.range(1, 8) as usize;
    let metric = rw.pick(&["cosine", "euclidean", "dot", "manhattan"]).to_string();
    let n = rw.range(4, 40) as usize;
    let mut pool: Vec<Vec<f32>> = Vec::new();
    let mut ops = Vec::new();
    let mut next_id = 1usize;
    let mut ids: Vec<usize> = Vec::new();
    for _ in 0..n {
        match rw.below(20) {
            0..=7 => {
                let id = if !ids.is_empty() && rw.chance(1, 6) { *rw.pick(&ids) } else {
                    next_id += rw.range(1, 3) as usize;
                    next_id
                };
                if !ids.contains(&id) {
                    ids.push(id);
                }
                let d = if rw.chance(1, 25) { dim + 1 } else { dim };
                ops.push(VOp::Insert { id, v: gen_vec(&mut rw, d, &mut pool) });
            }
            8..=9 => {
                let k = rw.range(2, 12) as usize;
                let mut entries: Vec<(usize, Vec<f32>)> = Vec::new();
                for _ in 0..k {
                    // mostly new identifiers; sometimes one that occurs earlier in the same batch or is stored already (= update, last one wins)
                    let id = if !entries.is_empty() && rw.chance(1, 6) {
                        entries[rw.below(entries.len() as u64) as usize].0
                    } else if !ids.is_empty() && rw.chance(1, 8) {
                        *rw.pick(&ids)
                    } else {
                        next_id += 1;
                        next_id
                    };
                    if !ids.contains(&id) {
                        ids.push(id);
                    }
                    entries.push((id, gen_vec(&mut rw, dim, &mut pool)));
                }
                ops.push(VOp::InsertBatch { entries });
            }
            10..=12 => {
                let id = if !ids.is_empty() && rw.chance(5, 6) { *rw.pick(&ids) } else { 9999 };
                ops.push(VOp::Delete { id });
            }
            13 => ops.push(VOp::Rebuild),
            14 => ops.push(if rw.chance(1, 2) { VOp::SaveLoad } else { VOp::ManagerSaveLoad }),
            _ => {
                let k = *rw.pick(&[1usize, 3, 10, 100]);
                let ef = *rw.pick(&[None, Some(1usize), Some(k), Some(50), Some(200)]);
                ops.push(VOp::Search { q: gen_vec(&mut rw, dim, &mut pool), k, ef });
            }
        }
    }
    ops.push(VOp::Search { q: gen_vec(&mut rw, dim, &mut pool), k: 100, ef: Some(200) });
    if rw.chance(1, 2) {
        ops.push(VOp::SaveLoad);
        ops.push(VOp::Search { q: gen_vec(&mut rw, dim, &mut pool), k: 10, ef: Some(200) });
    }
    VCase { seed, metric, m: *rw.pick(&[4usize, 8, 16]), ef_construction: *rw.pick(&[20usize, 100, 200]), ef_search: *rw.pick(&[10usize, 50, 200]), ops }
}

// ------------------------------------------------------------------------------------------ LSH

use crate::lshsc::{LCase, LOp};

pub fn lsh_case(seed: u64) -> LCase {
    let mut rw = Rng::new(seed, P_WORK);
    let nthreads = rw.range(2, 3) as usize;
    let dims = [2usize, 3, 3, 5];
    // a small pool so that different dimensions share (table, hyperplane count) pairs
    let pool: Vec<Vec<f32>> = (0..6)
        .map(|_| {
            let d = *rw.pick(&dims);
            (0..d).map(|_| (rw.below(2001) as f32) / 1000.0 - 1.0).collect()
        })
        .collect();
    let mut threads = Vec::new();
    for _ in 0..nthreads {
        let n = rw.range(2, 6) as usize;
        let mut ops = Vec::new();
        for _ in 0..n {
            let v = rw.pick(&pool).clone();
            let table = rw.below(3) as i64;
            let hp = *rw.pick(&[4usize, 8, 8, 16]);
            // int8 vectors share dimensions (and so cache entries) with the f32 pool
            let vi: Vec<i8> = (0..*rw.pick(&dims)).map(|_| *rw.pick(&[0i8, 1, -1, 5, -7, 127, -128, 33])).collect();
            match rw.below(20) {
                0..=4 => ops.push(LOp::Bucket { v, table, hp }),
                5 => ops.push(LOp::Buckets { v, tables: rw.range(1, 3) as usize, hp }),
                6 => ops.push(LOp::BucketDist { v, table, hp }),
                7 => ops.push(LOp::Prewarm { table, hp, dim: *rw.pick(&dims) }),
                8 => ops.push(LOp::Clear),
                9..=11 => ops.push(LOp::Resize { n: rw.below(4) as usize }),
                12..=14 => ops.push(LOp::BucketI8 { v: vi, table, hp }),
                15 => ops.push(LOp::BucketDistI8 { v: vi, table, hp }),
                16 => ops.push(LOp::MultiProbeI8 { v: vi, table, hp, k: rw.range(1, 5) as usize }),
                17 => ops.push(LOp::MultiProbe { v, table, hp, k: rw.range(1, 5) as usize }),
                18 => ops.push(LOp::Prewarm { table, hp: *rw.pick(&[4usize, 8, 16, 24, 62, 63, 64, 70]), dim: *rw.pick(&dims) }),
                // hyperplane counts at and beyond the 62-bit limit of a bucket
                _ => ops.push(LOp::Bucket { v, table, hp: *rw.pick(&[1usize, 2, 24, 61, 62, 63, 64, 70]) }),
            }
        }
        threads.push(ops);
    }
    let mut rs = Rng::new(seed, 9);
    LCase { seed, threads, sched: Some(gen_sched(&mut rs, nthreads)), sched_seed: rs.next() }
}
