//! DUR: the durability scenario family of `sim-seq` (DESIGN.md §8 "Common notation").
//! One simulated client drives the real StorageEngine through its public API; restarts, crashes
//! and crash images are generated operations / fault plans. Explicit `Case`s are the replay format.

use crate::model::{Obs, StoreModel};
use crate::values::{fnv64, from_tuple, to_tuple, T};
use inputlayer::{Config, DurabilityMode, StorageEngine};
use serde::{Deserialize, Serialize};
use simsys::{DataKeep, Image};

#[derive(Clone, Debug, Serialize, Deserialize, PartialEq)]
pub struct EngineCfg {
    pub buffer_size: usize,
    pub max_wal: u64,
    /// "immediate" | "batched" | "async"
    pub durability: String,
    pub num_threads: usize,
}

impl Default for EngineCfg {
    fn default() -> Self {
        EngineCfg { buffer_size: 10000, max_wal: 0, durability: "immediate".into(), num_threads: 1 }
    }
}

#[derive(Clone, Debug, Serialize, Deserialize, PartialEq)]
#[serde(tag = "op", rename_all = "snake_case")]
pub enum Op {
    Insert { kg: String, rel: String, tuples: Vec<T> },
    Delete { kg: String, rel: String, tuples: Vec<T> },
    CreateKg { kg: String },
    DropKg { kg: String },
    DropRelation { kg: String, rel: String },
    RegisterRule { kg: String, text: String },
    DropRule { kg: String, name: String },
    ClearRule { kg: String, name: String },
    RemoveRuleClause { kg: String, name: String, index: usize },
    RegisterSchema { kg: String, rel: String, cols: Vec<(String, String)> },
    RemoveSchema { kg: String, rel: String },
    SaveKg { kg: String },
    SaveAll,
    CompactAll,
    CompactIfNeeded { threshold: usize },
    /// drop the engine and open it again on the same directory (nothing is lost)
    Restart,
    /// graceful: save_all, then restart
    ShutdownRestart,
    /// query every relation through the full pipeline and compare with the snapshot contents
    Probe,
}

impl Op {
    pub fn kind(&self) -> &'static str {
        match self {
            Op::Insert { .. } => "insert",
            Op::Delete { .. } => "delete",
            Op::CreateKg { .. } => "create_kg",
            Op::DropKg { .. } => "drop_kg",
            Op::DropRelation { .. } => "drop_relation",
            Op::RegisterRule { .. } => "register_rule",
            Op::DropRule { .. } => "drop_rule",
            Op::ClearRule { .. } => "clear_rule",
            Op::RemoveRuleClause { .. } => "remove_rule_clause",
            Op::RegisterSchema { .. } => "register_schema",
            Op::RemoveSchema { .. } => "remove_schema",
            Op::SaveKg { .. } => "save_kg",
            Op::SaveAll => "save_all",
            Op::CompactAll => "compact_all",
            Op::CompactIfNeeded { .. } => "compact_if_needed",
            Op::Restart => "restart",
            Op::ShutdownRestart => "shutdown_restart",
            Op::Probe => "probe",
        }
    }
    pub fn is_maintenance(&self) -> bool {
        matches!(self, Op::SaveKg { .. } | Op::SaveAll | Op::CompactAll | Op::CompactIfNeeded { .. })
    }
    pub fn changes_state(&self) -> bool {
        !self.is_maintenance() && !matches!(self, Op::Restart | Op::ShutdownRestart | Op::Probe)
    }
}

#[derive(Clone, Debug, Serialize, Deserialize, PartialEq)]
#[serde(rename_all = "snake_case")]
pub enum ImageSel {
    L0,
    L1 { ns_keep: usize, data: DataSel },
    /// draw the image from this seed at crash time (resolved image is reported in the outcome)
    Draw(u64),
}
#[derive(Clone, Debug, Serialize, Deserialize, PartialEq)]
#[serde(rename_all = "snake_case")]
pub enum DataSel {
    All,
    None,
    Random(u64),
}

#[derive(Clone, Debug, Serialize, Deserialize, PartialEq)]
pub struct CrashPlan {
    /// ordinal of the gated file-system event that does not happen (counted from engine creation);
    /// if the history ends earlier the crash happens at the end, at an operation boundary
    pub at: u64,
    pub inflight_write: bool,
    pub image: ImageSel,
    /// optional second crash inside the following recovery (ordinal counted from recovery start)
    pub second: Option<(u64, ImageSel)>,
}

#[derive(Clone, Debug, Serialize, Deserialize, PartialEq, Default)]
pub struct Case {
    pub seed: u64,
    pub cfg: EngineCfg,
    pub ops: Vec<Op>,
    pub crash: Option<CrashPlan>,
    pub post_ops: Vec<Op>,
    /// compare the live state with the model after every step
    pub check_model: bool,
    /// return the file-system trace (dry runs)
    pub want_trace: bool,
    /// I/O error injection: (event ordinal, errno or -n for a short write of n bytes)
    #[serde(default)]
    pub faults: Vec<(u64, i32)>,
}

impl Default for Op {
    fn default() -> Self {
        Op::Probe
    }
}

#[derive(Clone, Debug, Serialize, Deserialize, Default)]
pub struct Failure {
    pub oracle: String,
    pub step: i64,
    pub detail: String,
}

#[derive(Clone, Debug, Serialize, Deserialize, Default)]
pub struct Outcome {
    pub status: String,
    pub failure: Option<Failure>,
    pub events: u64,
    pub trace: Vec<(u64, String, String, usize)>,
    pub log_hash: u64,
    pub state_hashes: Vec<u64>,
    /// (step, phase, hash): phase 0 = live after the op, 2 = after a restart
    pub step_hashes: Vec<(i64, u8, u64)>,
    pub final_obs: Option<Obs>,
    pub steps_done: usize,
    pub op_errors: usize,
    pub crash_fired: bool,
    pub crash_boundary: bool,
    pub crash_event: Option<(String, String)>,
    pub crash_step: i64,
    pub crash_op: String,
    pub image: Option<ImageSel>,
    pub image_stats: (usize, usize, usize, usize),
    pub second_crash_fired: bool,
    pub recoveries: u32,
    pub fs: FsCounters,
    pub restarts: u32,
    pub probes: u32,
    pub harness_error: Option<String>,
    /// (first event ordinal, one past the last, op kind) per operation of `ops` (dry runs)
    #[serde(default)]
    pub op_ranges: Vec<(u64, u64, String)>,
    /// fault-mix runs: operations that returned an error after an injected I/O error (indeterminate)
    #[serde(default)]
    pub indeterminate_ops: u32,
    /// fault-mix runs: largest number of candidate models alive at once
    #[serde(default)]
    pub max_candidates: u32,
    #[serde(default)]
    pub errno_by_code: std::collections::BTreeMap<i32, u64>,
}

#[derive(Clone, Debug, Serialize, Deserialize, Default)]
pub struct FsCounters {
    pub events: u64,
    pub writes: u64,
    pub fsyncs: u64,
    pub renames: u64,
    pub unlinks: u64,
    pub creates: u64,
    pub truncates: u64,
    pub faults_errno: u64,
    pub faults_short: u64,
    pub frozen_rejects: u64,
}

pub fn root_dir() -> String {
    format!("{}/p{:010}", std::env::var("VERIF_ROOT_BASE").unwrap_or_else(|_| "/dev/shm/verif-sim".into()), std::process::id())
}

/// Replace the per-process run directory by a fixed token (event logs are compared across processes).
pub fn canon_paths(s: &str) -> String {
    if s.contains("/p0") {
        s.replace(&root_dir(), "<root>")
    } else {
        s.to_string()
    }
}

pub fn make_config(cfg: &EngineCfg) -> Config {
    let mut c = Config::default();
    c.storage.data_dir = std::path::PathBuf::from(format!("{}/data", root_dir()));
    c.storage.persist.buffer_size = cfg.buffer_size;
    c.storage.persist.max_wal_size_bytes = cfg.max_wal;
    c.storage.persist.durability_mode = match cfg.durability.as_str() {
        "batched" => DurabilityMode::Batched,
        "async" => DurabilityMode::Async,
        _ => DurabilityMode::Immediate,
    };
    c.storage.performance.num_threads = cfg.num_threads;
    c
}

pub fn observe(e: &StorageEngine) -> Result<Obs, String> {
    let mut o = Obs::default();
    for kg in e.list_knowledge_graphs() {
        let mut ko = crate::model::KgObs::default();
        let (_rules, data) = e.get_rules_and_data(&kg).map_err(|e| format!("get_rules_and_data({kg}): {e}"))?;
        for (rel, tuples) in data {
            if tuples.is_empty() {
                continue;
            }
            let mut ts: Vec<T> = tuples.iter().map(from_tuple).collect();
            ts.sort();
            ko.rels.insert(rel, ts);
        }
        for name in e.list_rules_in(&kg).map_err(|e| e.to_string())? {
            let cnt = e.rule_count_in(&kg, &name).map_err(|e| e.to_string())?.unwrap_or(0);
            let text = e.describe_rule_in(&kg, &name).map_err(|e| e.to_string())?.unwrap_or_default();
            ko.rules.insert(name, (cnt, text));
        }
        for rel in e.list_schemas_in(&kg).map_err(|e| e.to_string())? {
            let s = e.get_schema_in(&kg, &rel).map_err(|e| e.to_string())?;
            ko.schemas.insert(rel, format!("{s:?}"));
        }
        o.kgs.insert(kg, ko);
    }
    Ok(o)
}

/// Answers of a probe query through every persistent rule (all rules of the DUR families have
/// arity 2): what a rule *means* must survive a restart, not only its name and text.
fn rule_answers(e: &StorageEngine) -> std::collections::BTreeMap<String, String> {
    let mut out = std::collections::BTreeMap::new();
    for kg in e.list_knowledge_graphs() {
        for name in e.list_rules_in(&kg).unwrap_or_default() {
            let q = format!("probe_q(X0, X1) <- {name}(X0, X1)");
            let v = match e.execute_query_with_rules_tuples_on(&kg, &q) {
                Ok(ts) => {
                    let mut rows: Vec<T> = ts.iter().map(from_tuple).collect();
                    rows.sort();
                    format!("{rows:?}")
                }
                Err(err) => format!("err:{err}"),
            };
            out.insert(format!("{kg}:{name}"), v);
        }
    }
    out
}

struct Exec<'a> {
    case: &'a Case,
    engine: Option<StorageEngine>,
    model: StoreModel,
    /// describe-texts and schema texts recorded from the live engine after acknowledged ops
    last_obs: Obs,
    log: Vec<u8>,
    out: Outcome,
    /// fault-mix runs (DESIGN §6.4): further candidate models; an operation that returned an error
    /// after an injected I/O error is indeterminate - wholly applied or wholly absent
    alts: Vec<StoreModel>,
}

fn errno_fired() -> u64 {
    simsys::counters().faults_errno.values().sum()
}

/// operations inside which I/O errors are injected (the others are never made to fail half-way)
fn fault_target(op: &Op) -> bool {
    matches!(op, Op::Insert { .. } | Op::Delete { .. } | Op::SaveKg { .. } | Op::SaveAll | Op::CompactAll | Op::CompactIfNeeded { .. })
}

fn fail(oracle: &str, step: i64, detail: String) -> Failure {
    Failure { oracle: oracle.to_string(), step, detail }
}

impl<'a> Exec<'a> {
    fn logln(&mut self, s: &str) {
        // the run directory carries the pid: error texts that quote a path must not change the log hash
        self.log.extend_from_slice(crate::dur::canon_paths(s).as_bytes());
        self.log.push(b'\n');
    }

    fn open(&mut self) -> Result<(), String> {
        let cfg = make_config(&self.case.cfg);
        match StorageEngine::new(cfg) {
            Ok(e) => {
                self.engine = Some(e);
                Ok(())
            }
            Err(e) => Err(e.to_string()),
        }
    }

    /// Apply `op` to the real engine. Returns a canonical result string ("ok:..." / "err:...").
    fn apply_real(&mut self, op: &Op) -> String {
        let e = self.engine.as_ref().expect("engine open");
        fn r<X: std::fmt::Debug, E: std::fmt::Display>(x: Result<X, E>) -> String {
            match x {
                Ok(v) => format!("ok:{v:?}"),
                Err(e) => format!("err:{e}"),
            }
        }
        match op {
            Op::Insert { kg, rel, tuples } => r(e.insert_tuples_into(kg, rel, tuples.iter().map(to_tuple).collect())),
            Op::Delete { kg, rel, tuples } => r(e.delete_tuples_from(kg, rel, tuples.iter().map(to_tuple).collect())),
            Op::CreateKg { kg } => r(e.create_knowledge_graph(kg)),
            Op::DropKg { kg } => r(e.drop_knowledge_graph(kg)),
            Op::DropRelation { kg, rel } => r(e.drop_relation_in(kg, rel)),
            Op::RegisterRule { kg, text } => match inputlayer::statement::parse_rule_definition(text) {
                Ok(def) => r(e.register_rule_in(kg, &def).map(|x| format!("{x:?}"))),
                Err(pe) => format!("err:parse:{pe}"),
            },
            Op::DropRule { kg, name } => r(e.drop_rule_in(kg, name)),
            Op::ClearRule { kg, name } => r(e.clear_rule_in(kg, name)),
            Op::RemoveRuleClause { kg, name, index } => r(e.remove_rule_clause_in(kg, name, *index)),
            Op::RegisterSchema { kg, rel, cols } => {
                let mut s = inputlayer::schema::RelationSchema::new(rel.clone());
                for (c, t) in cols {
                    let ty = inputlayer::schema::SchemaType::from_str(t).unwrap_or(inputlayer::schema::SchemaType::Any);
                    s = s.with_column(inputlayer::schema::ColumnSchema::new(c.clone(), ty));
                }
                r(e.register_schema_in(kg, s))
            }
            Op::RemoveSchema { kg, rel } => r(e.remove_schema_in(kg, rel).map(|x| x.is_some())),
            Op::SaveKg { kg } => r(e.save_knowledge_graph(kg)),
            Op::SaveAll => r(e.save_all()),
            Op::CompactAll => r(e.compact_all()),
            Op::CompactIfNeeded { threshold } => r(e.compact_if_needed(*threshold)),
            Op::Restart | Op::ShutdownRestart | Op::Probe => unreachable!("handled by caller"),
        }
    }

    /// Apply `op` to the model; returns the expected canonical result class.
    fn apply_model(model: &mut StoreModel, op: &Op) -> String {
        match op {
            Op::Insert { kg, rel, tuples } => match model.insert(kg, rel, tuples) {
                Ok((n, d)) => format!("ok:({n}, {d})"),
                Err(e) => format!("err:{e}"),
            },
            Op::Delete { kg, rel, tuples } => match model.delete(kg, rel, tuples) {
                Ok(n) => format!("ok:{n}"),
                Err(e) => format!("err:{e}"),
            },
            Op::CreateKg { kg } => match model.create_kg(kg) {
                Ok(()) => "ok:()".into(),
                Err(e) => format!("err:{e}"),
            },
            Op::DropKg { kg } => match model.drop_kg(kg) {
                Ok(()) => "ok:()".into(),
                Err(e) => format!("err:{e}"),
            },
            Op::DropRelation { kg, rel } => {
                // the engine reports "not found" for a relation without data, rule or schema; an
                // emptied relation is still known to a running engine but not after a restart, so
                // the result class is left open in that case
                let known = model.kgs.get(kg).is_some_and(|k| {
                    k.rels.get(rel).is_some_and(|r| !r.is_empty()) || k.rules.contains_key(rel) || k.schemas.contains_key(rel)
                });
                match model.drop_relation(kg, rel) {
                    Ok(()) => {
                        if known {
                            "ok:()".into()
                        } else {
                            "any".into()
                        }
                    }
                    Err(e) => format!("err:{e}"),
                }
            }
            Op::RegisterRule { kg, text } => {
                let Some(k) = model.kgs.get_mut(kg) else { return "err:kg".into() };
                let name = text.split('(').next().unwrap_or("").trim().to_string();
                if k.rels.get(&name).is_some_and(|r| !r.is_empty()) {
                    // engine-defined; the harness generator avoids this
                    return "any".into();
                }
                let existed = k.rules.contains_key(&name);
                let cl = k.rules.entry(name).or_default();
                // the catalog ignores a clause identical to one it already holds
                if !cl.contains(text) {
                    cl.push(text.clone());
                }
                if !existed {
                    "ok:\"Created\"".into()
                } else {
                    format!("ok:\"RuleAdded({})\"", cl.len())
                }
            }
            Op::DropRule { kg, name } => {
                let Some(k) = model.kgs.get_mut(kg) else { return "err:kg".into() };
                if k.rules.remove(name).is_some() {
                    "ok:()".into()
                } else {
                    "err:missing".into()
                }
            }
            Op::ClearRule { kg, name } => {
                let Some(k) = model.kgs.get_mut(kg) else { return "err:kg".into() };
                match k.rules.get_mut(name) {
                    Some(c) => {
                        c.clear();
                        "ok:()".into()
                    }
                    None => "err:missing".into(),
                }
            }
            Op::RemoveRuleClause { kg, name, index } => {
                let Some(k) = model.kgs.get_mut(kg) else { return "err:kg".into() };
                match k.rules.get_mut(name) {
                    Some(c) if *index < c.len() => {
                        c.remove(*index);
                        if c.is_empty() {
                            k.rules.remove(name);
                            "ok:true".into()
                        } else {
                            "ok:false".into()
                        }
                    }
                    _ => "err:missing".into(),
                }
            }
            Op::RegisterSchema { kg, rel, cols } => {
                let Some(k) = model.kgs.get_mut(kg) else { return "err:kg".into() };
                if k.schemas.contains_key(rel) {
                    return "err:exists".into();
                }
                k.schemas.insert(rel.clone(), cols.clone());
                "ok:()".into()
            }
            Op::RemoveSchema { kg, rel } => {
                let Some(k) = model.kgs.get_mut(kg) else { return "err:kg".into() };
                format!("ok:{}", k.schemas.remove(rel).is_some())
            }
            Op::SaveKg { kg } => {
                if model.kgs.contains_key(kg) {
                    "ok:()".into()
                } else {
                    "err:kg".into()
                }
            }
            Op::SaveAll | Op::CompactAll => "ok:()".into(),
            Op::CompactIfNeeded { .. } => "ok:any".into(),
            Op::Restart | Op::ShutdownRestart | Op::Probe => "ok:()".into(),
        }
    }

    fn result_matches(real: &str, want: &str) -> bool {
        if want == "any" {
            return true;
        }
        if want == "ok:any" {
            return real.starts_with("ok:");
        }
        if let Some(_) = want.strip_prefix("err:") {
            return real.starts_with("err:");
        }
        real == want
    }

    fn check_live(&mut self, step: i64, oracle_prefix: &str) -> Result<Obs, Failure> {
        let e = self.engine.as_ref().expect("engine");
        let obs = observe(e).map_err(|d| fail("observe_failed", step, d))?;
        self.logln(&format!("obs {}", serde_json::to_string(&obs).unwrap_or_default()));
        let h = fnv64(serde_json::to_string(&obs).unwrap_or_default().as_bytes());
        self.out.state_hashes.push(h);
        self.out.step_hashes.push((step, 0, h));
        self.out.final_obs = Some(obs.clone());
        if let Some(d) = obs.has_duplicates() {
            return Err(fail("not_a_set", step, d));
        }
        if self.case.check_model && !self.alts.is_empty() {
            if let Err((kind, d)) = self.explained(&obs) {
                return Err(fail(&format!("{oracle_prefix}_{kind}"), step, d));
            }
        } else if self.case.check_model {
            let want = self.model.normalised();
            if let Some(d) = obs.diff_facts(&want) {
                return Err(fail(&format!("{oracle_prefix}_facts"), step, d));
            }
            if let Some(d) = obs.diff_rules(&want) {
                return Err(fail(&format!("{oracle_prefix}_rules"), step, d));
            }
            if let Some(d) = obs.diff_schemas(&want) {
                return Err(fail(&format!("{oracle_prefix}_schemas"), step, d));
            }
        }
        Ok(obs)
    }

    /// Index of a candidate model that explains `obs` completely, or the first difference against
    /// the primary candidate.
    fn explained(&self, obs: &Obs) -> Result<usize, (&'static str, String)> {
        let mut first: Option<(&'static str, String)> = None;
        for (i, m) in std::iter::once(&self.model).chain(self.alts.iter()).enumerate() {
            let want = m.normalised();
            let d = obs
                .diff_facts(&want)
                .map(|d| ("facts", d))
                .or_else(|| obs.diff_rules(&want).map(|d| ("rules", d)))
                .or_else(|| obs.diff_schemas(&want).map(|d| ("schemas", d)));
            match d {
                None => return Ok(i),
                Some(x) => {
                    if first.is_none() {
                        first = Some(x);
                    }
                }
            }
        }
        let (k, d) = first.expect("at least one candidate");
        Err((k, format!("none of {} candidate models (failed operations applied or not) explains the state; vs acknowledged-only: {d}", self.alts.len() + 1)))
    }

    /// memory and disk agree again (after a reopen): keep only the candidate that was observed
    fn collapse_to(&mut self, idx: usize) {
        if idx > 0 {
            self.model = self.alts[idx - 1].clone();
        }
        self.alts.clear();
    }

    fn probe(&mut self, step: i64) -> Result<(), Failure> {
        let e = self.engine.as_ref().expect("engine");
        self.out.probes += 1;
        let obs = observe(e).map_err(|d| fail("observe_failed", step, d))?;
        for (kg, ko) in &obs.kgs {
            for (rel, ts) in &ko.rels {
                let arity = ts[0].len();
                let vars: Vec<String> = (0..arity).map(|i| format!("X{i}")).collect();
                let q = format!("probe_q({}) <- {}({})", vars.join(","), rel, vars.join(","));
                match e.execute_query_tuples_on(kg, &q) {
                    Ok(res) => {
                        let mut got: Vec<T> = res.iter().map(from_tuple).collect();
                        got.sort();
                        let mut want = ts.clone();
                        want.dedup();
                        if got != want {
                            return Err(fail(
                                "query_differs_from_snapshot",
                                step,
                                format!("{kg}:{rel}: query {} snapshot {}", crate::model::fmt_rel(Some(&got)), crate::model::fmt_rel(Some(&want))),
                            ));
                        }
                    }
                    Err(err) => return Err(fail("query_failed", step, format!("{kg}:{rel}: {err}"))),
                }
            }
        }
        Ok(())
    }

    fn restart(&mut self, step: i64, graceful: bool) -> Result<(), Failure> {
        let before = self.check_live(step, "live_differs_from_model")?;
        if graceful {
            let r = self.engine.as_ref().expect("engine").save_all();
            if simsys::is_frozen() {
                return Ok(());
            }
            if let Err(e) = r {
                if self.case.faults.is_empty() {
                    return Err(fail("op_failed", step, format!("save_all at shutdown: {e}")));
                }
            }
        }
        let has_rules = self.case.ops.iter().chain(self.case.post_ops.iter()).any(|o| matches!(o, Op::RegisterRule { .. }));
        let answers_before = if has_rules { rule_answers(self.engine.as_ref().expect("engine")) } else { Default::default() };
        self.engine = None;
        self.out.restarts += 1;
        let mut fired = errno_fired();
        let mut opened = self.open();
        // an injected I/O error may land inside recovery itself (ordinals shift after the first
        // fault): the operator starts the process again; faults are one-shot. A reopen that fails
        // without a fault having fired during it is a genuine failure and is not retried.
        let mut tries = 0;
        while opened.is_err() && !simsys::is_frozen() && errno_fired() > fired && tries < 3 {
            fired = errno_fired();
            self.engine = None;
            opened = self.open();
            tries += 1;
        }
        if simsys::is_frozen() {
            // the crash point lies inside this restart's recovery: the restart is the in-flight
            // operation (handled by the caller), not a failure
            return Ok(());
        }
        if let Err(e) = opened {
            return Err(fail("reopen_failed", step, e));
        }
        let e = self.engine.as_ref().expect("engine");
        let after = observe(e).map_err(|d| fail("observe_failed", step, d))?;
        self.logln(&format!("obs-after-restart {}", serde_json::to_string(&after).unwrap_or_default()));
        self.out.step_hashes.push((step, 2, fnv64(serde_json::to_string(&after).unwrap_or_default().as_bytes())));
        self.out.final_obs = Some(after.clone());
        if let Some(d) = after.has_duplicates() {
            return Err(fail("not_a_set", step, d));
        }
        // the durable-mode contract: clean restart reproduces the live state. In async/batched
        // modes only a graceful restart promises that.
        let promised = graceful || self.case.cfg.durability == "immediate";
        if promised && has_rules && self.alts.is_empty() {
            let answers_after = rule_answers(self.engine.as_ref().expect("engine"));
            if answers_after != answers_before {
                let diff: Vec<String> = answers_before
                    .iter()
                    .filter(|(k, v)| answers_after.get(*k) != Some(*v))
                    .map(|(k, v)| format!("{k}: before {v} after {:?}", answers_after.get(k)))
                    .take(3)
                    .collect();
                return Err(fail("restart_differs_rules", step, format!("answers through persistent rules changed across the restart: {diff:?}")));
            }
        }
        if promised && !self.alts.is_empty() {
            // failed operations may surface (or vanish) across a restart, nothing else may change
            match self.explained(&after) {
                Ok(i) => self.collapse_to(i),
                Err((kind, d)) => return Err(fail(&format!("restart_differs_{kind}"), step, d)),
            }
        } else if promised {
            if let Some(d) = after.diff_facts(&before) {
                return Err(fail("restart_differs_facts", step, d));
            }
            if let Some(d) = after.diff_rules(&before) {
                return Err(fail("restart_differs_rules", step, d));
            }
            if after.kgs.iter().any(|(k, ko)| before.kgs.get(k).is_some_and(|b| b.schemas != ko.schemas)) {
                return Err(fail(
                    "restart_differs_schemas",
                    step,
                    format!("have {:?} want {:?}", after.kgs.iter().map(|(k, v)| (k, &v.schemas)).collect::<Vec<_>>(), before.kgs.iter().map(|(k, v)| (k, &v.schemas)).collect::<Vec<_>>()),
                ));
            }
        }
        self.last_obs = after;
        Ok(())
    }

    /// Run a list of operations; returns Ok(Some(i)) if the disk froze during op i.
    fn run_ops(&mut self, ops: &[Op], base: i64) -> Result<Option<usize>, Failure> {
        for (i, op) in ops.iter().enumerate() {
            let step = base + i as i64;
            match op {
                Op::Restart | Op::ShutdownRestart => {
                    self.restart(step, matches!(op, Op::ShutdownRestart))?;
                    self.logln(&format!("step {step} {} ok", op.kind()));
                    if simsys::is_frozen() {
                        return Ok(Some(i));
                    }
                }
                Op::Probe => {
                    self.probe(step)?;
                }
                _ => {
                    let errs_before = errno_fired();
                    let ord_before = if self.case.want_trace { simsys::ordinal() } else { 0 };
                    let real = self.apply_real(op);
                    if self.case.want_trace {
                        self.out.op_ranges.push((ord_before, simsys::ordinal(), op.kind().to_string()));
                    }
                    if simsys::is_frozen() {
                        self.logln(&format!("step {step} {} inflight {real}", op.kind()));
                        return Ok(Some(i));
                    }
                    let fired_now = errno_fired() > errs_before;
                    if fired_now && !fault_target(op) {
                        // ordinals shifted after an earlier fault: this run is outside the fault-mix design
                        return Err(fail("skip:fault_outside_target_ops", step, op.kind().to_string()));
                    }
                    let indeterminate = !self.case.faults.is_empty() && real.starts_with("err:") && errno_fired() > 0 && fault_target(op);
                    let want = if indeterminate {
                        // wholly applied or wholly absent: every candidate splits in two
                        self.out.indeterminate_ops += 1;
                        let mut extra = Vec::new();
                        for m in std::iter::once(&self.model).chain(self.alts.iter()) {
                            let mut w = m.clone();
                            Self::apply_model(&mut w, op);
                            extra.push(w);
                        }
                        for w in extra {
                            if w != self.model && !self.alts.contains(&w) {
                                self.alts.push(w);
                            }
                        }
                        "any".to_string()
                    } else if !self.alts.is_empty() && real.starts_with("err:") {
                        // candidates disagree about what the engine holds, so the model cannot predict this
                        // result; an operation that reports an error has no effect in any candidate
                        "any".to_string()
                    } else {
                        for m in self.alts.iter_mut() {
                            Self::apply_model(m, op);
                        }
                        let w = Self::apply_model(&mut self.model, op);
                        let primary = self.model.clone();
                        self.alts.retain(|m| *m != primary);
                        self.alts.dedup();
                        if self.alts.is_empty() { w } else { "any".to_string() }
                    };
                    self.out.max_candidates = self.out.max_candidates.max(self.alts.len() as u32 + 1);
                    self.logln(&format!("step {step} {} -> {real}", op.kind()));
                    if real.starts_with("err:") {
                        self.out.op_errors += 1;
                    }
                    if self.case.check_model && !fired_now && !Self::result_matches(&real, &want) {
                        return Err(fail(
                            if want.starts_with("err:") || real.starts_with("err:") { "op_result_class" } else { "report_mismatch" },
                            step,
                            format!("{}: engine {real}, model {want}", serde_json::to_string(op).unwrap_or_default()),
                        ));
                    }
                    self.last_obs = self.check_live(step, "live_differs_from_model")?;
                }
            }
            self.out.steps_done += 1;
        }
        Ok(None)
    }
}

pub fn resolve_image_pub(sel: &ImageSel) -> (Image, ImageSel) {
    resolve_image(sel)
}

fn resolve_image(sel: &ImageSel) -> (Image, ImageSel) {
    match sel {
        ImageSel::L0 => (Image::L0, ImageSel::L0),
        ImageSel::L1 { ns_keep, data } => {
            let d = match data {
                DataSel::All => DataKeep::All,
                DataSel::None => DataKeep::None,
                DataSel::Random(s) => DataKeep::Random(*s),
            };
            (Image::L1 { ns_keep: *ns_keep, data: d }, sel.clone())
        }
        ImageSel::Draw(seed) => {
            let mut r = crate::values::Rng::new(*seed, 77);
            let (pns, _pd) = simsys::pending_summary();
            if r.chance(1, 3) {
                (Image::L0, ImageSel::L0)
            } else {
                let ns_keep = r.below(pns as u64 + 1) as usize;
                let (d, ds) = match r.below(3) {
                    0 => (DataKeep::All, DataSel::All),
                    1 => (DataKeep::None, DataSel::None),
                    _ => {
                        let s = r.next();
                        (DataKeep::Random(s), DataSel::Random(s))
                    }
                };
                (Image::L1 { ns_keep, data: d }, ImageSel::L1 { ns_keep, data: ds })
            }
        }
    }
}

pub fn exec(case: &Case) -> Outcome {
    let mut x = Exec {
        case,
        engine: None,
        model: StoreModel::new(),
        last_obs: Obs::default(),
        log: Vec::new(),
        out: Outcome::default(),
        alts: Vec::new(),
    };
    x.out.crash_step = -1;
    let r = exec_inner(&mut x);
    let mut out = std::mem::take(&mut x.out);
    // drop the engine before the final bookkeeping (its Drop may touch the file system)
    x.engine = None;
    match r {
        Ok(()) => out.status = "ok".into(),
        Err(f) => {
            out.status = "fail".into();
            out.failure = Some(f);
        }
    }
    let c = simsys::counters();
    out.fs = FsCounters {
        events: c.events,
        writes: c.writes,
        fsyncs: c.fsyncs,
        renames: c.renames,
        unlinks: c.unlinks,
        creates: c.creates,
        truncates: c.truncates,
        faults_errno: c.faults_errno.values().sum(),
        faults_short: c.faults_short,
        frozen_rejects: c.frozen_rejects,
    };
    out.errno_by_code = c.faults_errno.clone();
    let trace = simsys::take_trace();
    for ev in &trace {
        x.log.extend_from_slice(format!("fs {} {} {} {}\n", ev.ord, ev.kind, ev.path, ev.len).as_bytes());
    }
    if case.want_trace {
        out.trace = trace.iter().map(|e| (e.ord, e.kind.to_string(), e.path.clone(), e.len)).collect();
    }
    out.log_hash = fnv64(&x.log);
    if std::env::var_os("VERIF_DUMP_LOG").is_some() {
        let _g = simsys::BypassGuard::new();
        let _ = std::fs::write(format!("/tmp/verif-log-{}-{}.txt", case.seed, std::process::id()), &x.log);
    }
    if out.failure.is_none() && !simsys::is_frozen() {
        if let Err(e) = simsys::audit() {
            out.status = "harness".into();
            out.harness_error = Some(format!("audit: {e}"));
        }
    }
    out
}

fn exec_inner(x: &mut Exec) -> Result<(), Failure> {
    let case = x.case;
    let mut plan = simsys::FaultPlan::default();
    if let Some(c) = &case.crash {
        plan.crash_at = Some(c.at);
        plan.crash_inflight_write = c.inflight_write;
    }
    for (ord, code) in &case.faults {
        if *code > 0 {
            plan.faults.insert(*ord, simsys::Fault::Errno(*code));
        } else {
            plan.faults.insert(*ord, simsys::Fault::Short((-*code) as usize));
        }
    }
    simsys::set_plan(plan);
    let mut inflight: Option<Op> = None;
    let mut crashed_in_open = false;
    match x.open() {
        Ok(()) => {}
        Err(e) => {
            if simsys::is_frozen() {
                crashed_in_open = true;
            } else {
                return Err(fail("open_failed", -1, e));
            }
        }
    }
    if !crashed_in_open {
        if simsys::is_frozen() {
            crashed_in_open = true;
        } else {
            x.last_obs = x.check_live(-1, "live_differs_from_model")?;
            if let Some(i) = x.run_ops(&case.ops, 0)? {
                inflight = Some(case.ops[i].clone());
                x.out.crash_step = i as i64;
                x.out.crash_op = case.ops[i].kind().to_string();
            }
        }
    }
    x.out.events = simsys::ordinal();
    let Some(cp) = &case.crash else {
        return Ok(());
    };
    // ---------------------------------------------------------------- crash
    if simsys::is_frozen() {
        x.out.crash_fired = true;
        if let Some(ev) = simsys::crash_event() {
            x.out.crash_event = Some((ev.kind.to_string(), ev.path));
        }
    } else {
        simsys::freeze_now();
        x.out.crash_boundary = true;
    }
    x.engine = None; // process dies; Drop impls run against a frozen disk
    let (img, sel) = resolve_image(&cp.image);
    let st = simsys::crash_restore(&img);
    x.out.image = Some(sel);
    x.out.image_stats = (st.ns_dropped, st.writes_dropped, st.torn, st.files_lost);
    x.logln("crash");
    // ---------------------------------------------------------------- recovery (maybe crashed again)
    if let Some((at2, img2)) = &cp.second {
        let mut p = simsys::FaultPlan::default();
        p.crash_at = Some(simsys::ordinal() + at2);
        simsys::set_plan(p);
        x.out.recoveries += 1;
        let r = x.open();
        if simsys::is_frozen() {
            x.out.second_crash_fired = true;
            x.engine = None;
            let (i2, _) = resolve_image(img2);
            simsys::crash_restore(&i2);
            x.logln("crash-in-recovery");
            x.out.recoveries += 1;
            if let Err(e) = x.open() {
                return Err(fail("reopen_failed_after_crash", x.out.crash_step, format!("second recovery: {e}")));
            }
        } else {
            simsys::set_plan(simsys::FaultPlan::default());
            if let Err(e) = r {
                return Err(fail("reopen_failed_after_crash", x.out.crash_step, e));
            }
        }
    } else {
        x.out.recoveries += 1;
        if let Err(e) = x.open() {
            return Err(fail("reopen_failed_after_crash", x.out.crash_step, e));
        }
    }
    // ---------------------------------------------------------------- recovered state
    let step = x.out.crash_step;
    let e = x.engine.as_ref().expect("engine");
    let obs = observe(e).map_err(|d| fail("observe_failed", step, d))?;
    x.logln(&format!("obs-recovered {}", serde_json::to_string(&obs).unwrap_or_default()));
    if let Some(d) = obs.has_duplicates() {
        return Err(fail("not_a_set", step, d));
    }
    if crashed_in_open {
        // nothing was ever acknowledged: the store must simply open (checked above) as the
        // initial state
        let want = StoreModel::new().normalised();
        if let Some(d) = obs.diff_facts(&want) {
            return Err(fail("recovered_not_prefix_facts", step, d));
        }
    } else {
        let without = x.model.clone();
        let mut with = x.model.clone();
        if let Some(op) = &inflight {
            Exec::apply_model(&mut with, op);
        }
        let mut cand: Vec<(&str, StoreModel)> = vec![("acked", without.clone()), ("acked+inflight", with.clone())];
        for a in &x.alts {
            cand.push(("acked+failed-op", a.clone()));
            if let Some(op) = &inflight {
                let mut w = a.clone();
                Exec::apply_model(&mut w, op);
                cand.push(("acked+failed-op+inflight", w));
            }
        }
        x.alts.clear();
        let mut matched: Option<&StoreModel> = None;
        let mut first_diff = String::new();
        for (label, m) in cand.iter().map(|(l, m)| (*l, m)) {
            let want = m.normalised();
            let d = obs.diff_facts(&want).or_else(|| obs.diff_rules(&want)).or_else(|| obs.diff_schemas(&want));
            match d {
                None => {
                    matched = Some(m);
                    break;
                }
                Some(d) => {
                    if first_diff.is_empty() {
                        first_diff = format!("vs {label}: {d}");
                    }
                }
            }
        }
        match matched {
            Some(m) => x.model = m.clone(),
            None => {
                // classify which part differs against the acked state
                let want = without.normalised();
                let oracle = if obs.diff_facts(&want).is_some() && obs.diff_facts(&with.normalised()).is_some() {
                    "recovered_not_prefix_facts"
                } else if obs.diff_rules(&want).is_some() && obs.diff_rules(&with.normalised()).is_some() {
                    "recovered_not_prefix_rules"
                } else {
                    "recovered_not_prefix_schemas"
                };
                return Err(fail(
                    oracle,
                    step,
                    format!("inflight={} {first_diff}", inflight.as_ref().map_or("none".to_string(), |o| serde_json::to_string(o).unwrap_or_default())),
                ));
            }
        }
    }
    x.last_obs = obs;
    // ---------------------------------------------------------------- latent damage + liveness
    let base = case.ops.len() as i64 + 1000;
    let saved_check = x.case.check_model;
    let _ = saved_check;
    let r = x.run_ops(&case.post_ops, base).map_err(|mut f| {
        f.oracle = format!("post:{}", f.oracle);
        f
    })?;
    if r.is_some() {
        return Err(fail("harness", base, "disk froze in post ops".into()));
    }
    Ok(())
}
